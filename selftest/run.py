#!/venv/bin/python
"""Self-test of sensitivity and silence.

  selftest/run.py [--ids m01e,m02d,...] [--property C01] [--all] [--tier quick] [--jobs 4]

Applies each entry of selftest/mutants.json (and each seeded/<id>/patch.diff) to a scratch copy of
/repo under /tmp, runs the named property's check with VMON_REPO=<copy> and VMON_OUT=<scratch>
(so /verif/evidence is untouched), and reports: kind=break must exit 1, kind=benign must exit 0.
The copy is removed afterwards.
"""
import argparse, concurrent.futures, json, os, shutil, subprocess, sys, tempfile

VERIF = os.path.dirname(os.path.dirname(os.path.abspath(__file__)))
REPO = "/repo"


def load(args):
    ms = json.load(open(os.path.join(VERIF, "selftest", "mutants.json")))["mutants"]
    sd = os.path.join(VERIF, "seeded")
    if os.path.isdir(sd):
        for name in sorted(os.listdir(sd)):
            mp = os.path.join(sd, name, "meta.json")
            if os.path.exists(mp):
                meta = json.load(open(mp))
                ms.append({"id": name, "property": meta["property"], "kind": "break", "note": meta.get("needs", ""),
                           "suite_on_pinned_tree": "PASS", "patch": os.path.join(sd, name, "patch.diff")})
    bd = os.path.join(VERIF, "seeded_benign")
    if os.path.isdir(bd):
        for name in sorted(os.listdir(bd)):
            if os.path.exists(os.path.join(bd, name, "patch.diff")):
                ms.append({"id": "benign-" + name, "property": "ALL", "kind": "benign", "note": "independently written behaviour-preserving refactor",
                           "suite_on_pinned_tree": "PASS", "patch": os.path.join(bd, name, "patch.diff")})
    if args.ids:
        want = set(args.ids.split(","))
        ms = [m for m in ms if m["id"] in want]
    if args.property:
        ms = [m for m in ms if m["property"] in args.property.split(",")]
    if not args.all and not args.ids:
        ms = [m for m in ms if m["suite_on_pinned_tree"] == "PASS"]
    return ms


def run_one(m, tier, all_props):
    d = tempfile.mkdtemp(prefix="vmon-selftest-")
    try:
        copy = os.path.join(d, "repo")
        shutil.copytree(REPO, copy, ignore=shutil.ignore_patterns(".git", "__pycache__", "*.egg-info", "docs"))
        if "patch" in m:
            p = subprocess.run(["patch", "-p1", "-s", "-i", m["patch"]], cwd=copy, capture_output=True, text=True)
            if p.returncode:
                return m, "APPLY-FAILED", p.stdout + p.stderr
        else:
            for e in m["edits"]:
                path = os.path.join(copy, e["file"])
                s = open(path).read()
                if e["old"] not in s:
                    return m, "APPLY-FAILED", f"old text not found in {e['file']}"
                open(path, "w").write(s.replace(e["old"], e["new"], 1))
        env = dict(os.environ, VMON_REPO=copy, VMON_OUT=os.path.join(d, "out"), VMON_WORKERS="4")
        props = all_props if (m["kind"] == "benign" and all_props) else [m["property"]]
        if m["property"] == "ALL":
            props = [f"C{i:02d}" for i in range(1, 21)]
        outs = []
        status = None
        for pid in props:
            p = subprocess.run([os.path.join(VERIF, "check"), pid, tier], env=env, capture_output=True, text=True, timeout=3600)
            outs.append(f"[{pid} exit {p.returncode}] " + "\n".join((p.stdout + p.stderr).strip().splitlines()[:4]))
            if m["kind"] == "break":
                status = "CAUGHT" if (p.returncode == 1 and "VIOLATION property=" in p.stdout) else ("INCONCLUSIVE" if p.returncode == 2 else "MISSED")
            else:
                if p.returncode != 0:
                    status = f"FALSE-ALARM({pid})"
                    break
                status = "SILENT"
        return m, status, "\n".join(outs)
    finally:
        shutil.rmtree(d, ignore_errors=True)


def main():
    ap = argparse.ArgumentParser()
    ap.add_argument("--ids"); ap.add_argument("--property"); ap.add_argument("--all", action="store_true")
    ap.add_argument("--tier", default="quick"); ap.add_argument("--jobs", type=int, default=4)
    ap.add_argument("--benign-all-props", action="store_true"); ap.add_argument("-v", action="store_true")
    args = ap.parse_args()
    ms = load(args)
    all_props = [f"C{i:02d}" for i in range(1, 21) if os.path.exists(os.path.join(VERIF, "vmon", "props", f"c{i:02d}.py"))] \
        if args.benign_all_props else None
    bad = 0
    with concurrent.futures.ThreadPoolExecutor(max_workers=args.jobs) as ex:
        for m, status, out in ex.map(lambda m: run_one(m, args.tier, all_props), ms):
            ok = status in ("CAUGHT", "SILENT")
            bad += not ok
            print(f"{m['id']:8} {m['property']} {m['kind']:6} suite={m['suite_on_pinned_tree']:4} -> {status:12} {m['note'][:70]}")
            if args.v or not ok:
                print("    " + out.replace("\n", "\n    ")[:1500])
            sys.stdout.flush()
    print(f"{len(ms) - bad}/{len(ms)} as expected")
    return 1 if bad else 0


if __name__ == "__main__":
    sys.exit(main())
