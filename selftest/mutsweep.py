#!/venv/bin/python
"""Systematic sensitivity sweep: every small syntactic mutation of chartparse/*.py that a maintainer's slip could produce
(comparison operator swapped, + for -, and for or, `not` dropped, a small integer constant off by one) is applied to a scratch
copy of /repo; mutants the repository's own suite kills are set aside; the survivors are run through the quick checks of the
properties anchored in the mutated file plus the broad ones (C17, C18, C19).

  selftest/mutsweep.py [--files sync.py,instrument.py] [--jobs 4] [--limit N] [--out selftest/mutsweep.json] [--only-survivors prev.json]

Result per mutant: killed-by-suite | caught-by:<props> | SURVIVED (passes the suite and every check that was run) | invalid (does not
compile). Survivors are the blind spots to read: an equivalent mutant (same behaviour) or a gap in the workloads.
"""
import argparse, ast, concurrent.futures, json, os, shutil, subprocess, sys, tempfile

V = os.path.dirname(os.path.dirname(os.path.abspath(__file__)))
REPO = "/repo"
PY = "/venv/bin/python"
BROAD = ["C18", "C17", "C19"]
CMP = {ast.Lt: "<", ast.LtE: "<=", ast.Gt: ">", ast.GtE: ">=", ast.Eq: "==", ast.NotEq: "!="}
CMP_SWAP = {"<": ["<="], "<=": ["<"], ">": [">="], ">=": [">"], "==": ["!="], "!=": ["=="]}
BIN = {ast.Add: "+", ast.Sub: "-"}
BIN_SWAP = {"+": "-", "-": "+"}
TABLES = "--tables" in sys.argv


PRIORITY = {"instrument.py": ["C02", "C03", "C04", "C05", "C07", "C16", "C13", "C19", "C18"],
            "sync.py": ["C01", "C08", "C11", "C12", "C15", "C14", "C18"],
            "tick.py": ["C01", "C04", "C12", "C15", "C17"],
            "chart.py": ["C06", "C13", "C16", "C18", "C19", "C17"]}


def props_for(fname):
    if fname in PRIORITY:
        return list(PRIORITY[fname])
    out = []
    for l in open(os.path.join(V, "properties.jsonl")):
        p = json.loads(l)
        if any(f.endswith(fname) for f in p["anchors"].get("files", [])):
            out.append(p["id"])
    return out


def between(src_lines, a, b):
    """text between two (line, col) positions on ONE line, else None"""
    if a[0] != b[0]:
        return None
    return src_lines[a[0] - 1][a[1]:b[1]]


def mutants_of(path):
    src = open(path).read()
    lines = src.split("\n")
    tree = ast.parse(src)
    out = []

    def repl(line, c0, c1, new, what):
        l2 = list(lines)
        l2[line - 1] = l2[line - 1][:c0] + new + l2[line - 1][c1:]
        out.append({"line": line, "what": what, "before": lines[line - 1].strip(), "after": l2[line - 1].strip(), "text": "\n".join(l2)})

    in_doc = set()
    # constants that sit directly in a class-level assignment (enum member tables: lane tuples, index values) - a slip there is a different
    # member, which the suite's enum tests and every check's first chart see at once; they are swept only with --tables
    if not TABLES:
        for node in ast.walk(tree):
            if isinstance(node, ast.ClassDef):
                for st in node.body:
                    if isinstance(st, (ast.Assign, ast.AnnAssign)) and st.value is not None:
                        for c in ast.walk(st.value):
                            if isinstance(c, ast.Constant):
                                in_doc.add(id(c))
    for node in ast.walk(tree):
        if isinstance(node, (ast.FunctionDef, ast.ClassDef, ast.Module, ast.AsyncFunctionDef)) and node.body and isinstance(node.body[0], ast.Expr) \
                and isinstance(getattr(node.body[0], "value", None), ast.Constant) and isinstance(node.body[0].value.value, str):
            in_doc.add(id(node.body[0].value))
    for node in ast.walk(tree):
        if isinstance(node, ast.Compare) and len(node.ops) == 1 and type(node.ops[0]) in CMP:
            a = (node.left.end_lineno, node.left.end_col_offset)
            b = (node.comparators[0].lineno, node.comparators[0].col_offset)
            t = between(lines, a, b)
            op = CMP[type(node.ops[0])]
            if t is not None and t.strip() == op:
                i = a[1] + t.index(op)
                for new in CMP_SWAP[op]:
                    repl(a[0], i, i + len(op), new, f"{op} -> {new}")
        elif isinstance(node, ast.BinOp) and type(node.op) in BIN:
            a = (node.left.end_lineno, node.left.end_col_offset)
            b = (node.right.lineno, node.right.col_offset)
            t = between(lines, a, b)
            op = BIN[type(node.op)]
            if t is not None and t.strip() == op:
                i = a[1] + t.index(op)
                repl(a[0], i, i + 1, BIN_SWAP[op], f"{op} -> {BIN_SWAP[op]}")
        elif isinstance(node, ast.BoolOp):
            for v0, v1 in zip(node.values, node.values[1:]):
                a = (v0.end_lineno, v0.end_col_offset)
                b = (v1.lineno, v1.col_offset)
                t = between(lines, a, b)
                op = "and" if isinstance(node.op, ast.And) else "or"
                if t is not None and t.strip() == op:
                    i = a[1] + t.index(op)
                    new = "or" if op == "and" else "and"
                    repl(a[0], i, i + len(op), new, f"{op} -> {new}")
        elif isinstance(node, ast.UnaryOp) and isinstance(node.op, ast.Not) and node.lineno == node.operand.lineno:
            seg = lines[node.lineno - 1][node.col_offset:node.operand.col_offset]
            if seg.strip() == "not":
                repl(node.lineno, node.col_offset, node.operand.col_offset, "", "not dropped")
        elif isinstance(node, ast.Constant) and type(node.value) is int and 0 <= node.value <= 8 and id(node) not in in_doc \
                and node.lineno == node.end_lineno and lines[node.lineno - 1][node.col_offset:node.end_col_offset] == str(node.value):
            for new in ({node.value + 1, node.value - 1} - {-1}):
                repl(node.lineno, node.col_offset, node.end_col_offset, str(new), f"{node.value} -> {new}")
    # de-duplicate
    seen, uniq = set(), []
    for m in out:
        k = (m["line"], m["after"])
        if k not in seen and m["after"] != m["before"]:
            seen.add(k)
            uniq.append(m)
    return uniq


def run_one(job):
    fname, k, m, props = job
    d = tempfile.mkdtemp(prefix="vmon-mut-")
    res = {"file": fname, "n": k, "line": m["line"], "what": m["what"], "before": m["before"], "after": m["after"]}
    try:
        copy = os.path.join(d, "repo")
        shutil.copytree(REPO, copy, ignore=shutil.ignore_patterns(".git", "__pycache__", "*.egg-info", "docs"))
        with open(os.path.join(copy, "chartparse", fname), "w") as f:
            f.write(m["text"])
        p = subprocess.run([PY, "-m", "py_compile", os.path.join(copy, "chartparse", fname)], capture_output=True, text=True,
                           env=dict(os.environ, PYTHONDONTWRITEBYTECODE="1", PYTHONPYCACHEPREFIX=os.path.join(d, "pyc")))
        if p.returncode:
            res["result"] = "invalid"
            return res
        try:
            p = subprocess.run([PY, "-m", "pytest", "-q", "-x", "-p", "no:cacheprovider", "--timeout=120", "--deselect",
                                "tests/test_instrument.py::TestNoteEvent::TestEndTick::test_wrapper"], cwd=copy, capture_output=True, text=True, timeout=600,
                               env=dict(os.environ, PYTHONDONTWRITEBYTECODE="1"))
            suite_ok = p.returncode == 0
        except subprocess.TimeoutExpired:
            suite_ok = False
        if not suite_ok:
            res["result"] = "killed-by-suite"
            return res
        env = dict(os.environ, VMON_REPO=copy, VMON_OUT=os.path.join(d, "out"), VMON_WORKERS="4", VMON_GRACE="3")
        caught, incon = [], []
        for pid in props:
            try:
                q = subprocess.run([os.path.join(V, "check"), pid, "quick"], env=env, capture_output=True, text=True, timeout=1500)
            except subprocess.TimeoutExpired:
                incon.append(pid)
                continue
            if q.returncode == 1 and "VIOLATION property=" in q.stdout:
                caught.append(pid)
                first = next((ln for ln in q.stdout.splitlines() if ln.startswith("  ")), "")
                res.setdefault("witness", first.strip()[:300])
                break
            if q.returncode == 2:
                incon.append(pid)
        res["result"] = ("caught-by:" + ",".join(caught)) if caught else ("SURVIVED" if not incon else "inconclusive:" + ",".join(incon))
        res["checks_run"] = props[:props.index(caught[0]) + 1] if caught else props
        return res
    finally:
        shutil.rmtree(d, ignore_errors=True)


def main():
    ap = argparse.ArgumentParser()
    ap.add_argument("--files"); ap.add_argument("--jobs", type=int, default=4); ap.add_argument("--limit", type=int); ap.add_argument("--tables", action="store_true")
    ap.add_argument("--out", default=os.path.join(V, "selftest", "mutsweep.json")); ap.add_argument("--only-survivors")
    a = ap.parse_args()
    files = a.files.split(",") if a.files else sorted(f for f in os.listdir(os.path.join(REPO, "chartparse")) if f.endswith(".py") and f != "__init__.py")
    prev = None
    if a.only_survivors:
        prev = {(r["file"], r["line"], r["after"]) for r in json.load(open(a.only_survivors))["results"] if r["result"].startswith(("SURVIVED", "inconclusive"))}
    jobs = []
    for fname in files:
        props = props_for(fname)
        if fname not in PRIORITY:
            props = props + [b for b in BROAD if b not in props]
        for k, m in enumerate(mutants_of(os.path.join(REPO, "chartparse", fname))):
            if prev is not None and (fname, m["line"], m["after"]) not in prev:
                continue
            jobs.append((fname, k, m, props))
    if a.limit:
        jobs = jobs[:: max(1, len(jobs) // a.limit)][:a.limit]
    print(f"{len(jobs)} mutants over {len(files)} files", flush=True)
    results = []
    with concurrent.futures.ThreadPoolExecutor(max_workers=a.jobs) as ex:
        for r in ex.map(run_one, jobs):
            results.append(r)
            print(f"{r['file']}:{r['line']:<4} {r['what']:<12} {r['result']:<28} {r['after'][:90]}", flush=True)
            if len(results) % 20 == 0:
                json.dump({"results": results}, open(a.out, "w"), indent=1)
    tally = {}
    for r in results:
        k = r["result"].split(":")[0]
        tally[k] = tally.get(k, 0) + 1
    json.dump({"about": "selftest/mutsweep.py: syntactic mutants of chartparse/*.py vs. the repository's suite and the quick checks",
               "tally": tally, "results": results}, open(a.out, "w"), indent=1)
    print(json.dumps(tally))


if __name__ == "__main__":
    main()
