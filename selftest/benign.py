#!/venv/bin/python
"""False-alarm test: applies each seeded_benign/<id>/patch.diff to a scratch copy and runs quick checks that must stay silent.
  selftest/benign.py [--ids a,b] [--props own|all|C01,C02] [--jobs 4]
'own' = the property the refactor was aimed at (edge-Cxx-n) or all 20 for module refactors."""
import argparse, concurrent.futures, json, os, shutil, subprocess, sys, tempfile
V = os.path.dirname(os.path.dirname(os.path.abspath(__file__)))
ALL = [f"C{i:02d}" for i in range(1, 21)]


def run(name, props):
    d = tempfile.mkdtemp(prefix="vmon-benign-")
    try:
        copy = os.path.join(d, "repo")
        shutil.copytree("/repo", copy, ignore=shutil.ignore_patterns(".git", "__pycache__", "*.egg-info", "docs"))
        p = subprocess.run(["patch", "-p1", "-s", "-i", os.path.join(V, "seeded_benign", name, "patch.diff")], cwd=copy, capture_output=True, text=True)
        if p.returncode:
            return name, {"APPLY": p.stdout + p.stderr}
        env = dict(os.environ, VMON_REPO=copy, VMON_OUT=os.path.join(d, "out"), VMON_WORKERS="4")
        bad = {}
        for pid in props:
            q = subprocess.run([os.path.join(V, "check"), pid, "quick"], env=env, capture_output=True, text=True, timeout=3600)
            if q.returncode != 0:
                bad[pid] = (q.returncode, "\n".join(q.stdout.strip().splitlines()[:3])[:700])
        return name, bad
    finally:
        shutil.rmtree(d, ignore_errors=True)


def main():
    ap = argparse.ArgumentParser(); ap.add_argument("--ids"); ap.add_argument("--props", default="own"); ap.add_argument("--jobs", type=int, default=4)
    a = ap.parse_args()
    names = sorted(n for n in os.listdir(os.path.join(V, "seeded_benign")) if os.path.exists(os.path.join(V, "seeded_benign", n, "patch.diff")))
    if a.ids:
        names = [n for n in names if n in a.ids.split(",")]
    def props_for(n):
        if a.props == "all":
            return ALL
        if a.props == "own":
            return [n.split("-")[1]] if n.startswith("edge-") else ALL
        return a.props.split(",")
    alarms = 0
    with concurrent.futures.ThreadPoolExecutor(max_workers=a.jobs) as ex:
        for name, bad in ex.map(lambda n: run(n, props_for(n)), names):
            alarms += bool(bad)
            print(f"{name}: {'SILENT' if not bad else 'ALARM ' + json.dumps(bad)[:900]}", flush=True)
    print(f"{len(names) - alarms}/{len(names)} silent")
    return 1 if alarms else 0


sys.exit(main())
