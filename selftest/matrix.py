#!/venv/bin/python
"""Which checks catch which seeded change: applies each seeded/<id>/patch.diff to a scratch copy and runs ALL 20 quick checks.
Writes selftest/matrix.json and prints one line per change.
  selftest/matrix.py [ids,comma,separated] [--props all|own+broad|own]     (own+broad = the change's own property + the seven widest checks)"""
import concurrent.futures, json, os, shutil, subprocess, sys, tempfile

VERIF = os.path.dirname(os.path.dirname(os.path.abspath(__file__)))
PROPS = [f"C{i:02d}" for i in range(1, 21)]


BROAD = ["C01", "C02", "C06", "C14", "C17", "C18", "C19"]  # the widest workloads: run next to the change's own property by --props own+broad
MODE = "all"


def props_for(name):
    if MODE == "all":
        return PROPS
    if MODE == "own":
        return [json.load(open(os.path.join(VERIF, "seeded", name, "meta.json")))["property"]]
    own = json.load(open(os.path.join(VERIF, "seeded", name, "meta.json")))["property"]
    return sorted(set([own] + BROAD))


def run(name):
    d = tempfile.mkdtemp(prefix="vmon-matrix-")
    try:
        copy = os.path.join(d, "repo")
        shutil.copytree("/repo", copy, ignore=shutil.ignore_patterns(".git", "__pycache__", "*.egg-info", "docs"))
        p = subprocess.run(["patch", "-p1", "-s", "-i", os.path.join(VERIF, "seeded", name, "patch.diff")], cwd=copy, capture_output=True, text=True)
        if p.returncode:
            return name, {"error": p.stdout + p.stderr}
        env = dict(os.environ, VMON_REPO=copy, VMON_OUT=os.path.join(d, "out"), VMON_WORKERS="4")
        res = {}
        for pid in props_for(name):
            q = subprocess.run([os.path.join(VERIF, "check"), pid, "quick"], env=env, capture_output=True, text=True, timeout=3600)
            res[pid] = q.returncode if not (q.returncode == 1 and "VIOLATION property=" not in q.stdout) else 2
        return name, res
    finally:
        shutil.rmtree(d, ignore_errors=True)


def main():
    global MODE
    if "--props" in sys.argv:
        k = sys.argv.index("--props")
        MODE = sys.argv[k + 1]
        del sys.argv[k:k + 2]
    names = sorted(n for n in os.listdir(os.path.join(VERIF, "seeded")) if os.path.exists(os.path.join(VERIF, "seeded", n, "patch.diff")))
    if len(sys.argv) > 1:
        names = [n for n in names if n in sys.argv[1].split(",")]
    out = {}
    path = os.path.join(VERIF, "selftest", "matrix.json")
    if os.path.exists(path) and len(sys.argv) > 1:
        out = json.load(open(path))
    with concurrent.futures.ThreadPoolExecutor(max_workers=4) as ex:
        for name, res in ex.map(run, names):
            out[name] = res
            caught = [p for p, rc in res.items() if rc == 1]
            inconc = [p for p, rc in res.items() if rc == 2]
            print(f"{name}: caught by {caught}" + (f" inconclusive {inconc}" if inconc else ""), flush=True)
    json.dump(out, open(path, "w"), indent=1, sort_keys=True)


main()
