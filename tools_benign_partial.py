#!/venv/bin/python
"""Writes seeded_benign/RESULTS.md from several logs of selftest/benign.py, each run with its own --props list:
   tools_benign_partial.py "<props or 'all'>=<log>" ...      Later logs override earlier ones per (change, check)."""
import json, os, re, subprocess, sys
V = os.path.dirname(os.path.abspath(__file__))
ALL = [f"C{i:02d}" for i in range(1, 21)]
res = {}   # change -> {check: "silent" | text}
for arg in sys.argv[1:]:
    props, log = arg.split("=", 1)
    props = ALL if props == "all" else props.split(",")
    if not os.path.exists(log):
        continue
    for ln in open(log):
        ln = ln.rstrip("\n")
        if ": SILENT" in ln:
            name = ln.split(":")[0]
            for p in props:
                res.setdefault(name, {})[p] = "silent"
        elif ": ALARM " in ln:
            name, js = ln.split(": ALARM ", 1)
            try:
                d = json.loads(js)
            except Exception:
                continue
            for p in props:
                if p in d:
                    rc, text = d[p]
                    first = next((x.strip() for x in text.splitlines()[1:] if x.strip() and not x.startswith("VIOLATION")), text.splitlines()[0] if text else "")
                    res.setdefault(name, {})[p] = f"exit {rc}: {first[:200]}"
                else:
                    res.setdefault(name, {})[p] = "silent"
commit = subprocess.run(["git", "-C", V, "rev-parse", "--short", "HEAD"], capture_output=True, text=True).stdout.strip()
out = ["# Benign changes of session 4 (seeded_benign/r10-B*, r11-B*) x quick checks", "",
       f"Written by `tools_benign_partial.py` (/verif at {commit}). Each change was applied to a scratch copy of /repo under /tmp (`VMON_REPO`, `VMON_OUT`) and the "
       "listed quick checks were run against the copy (`selftest/benign.py`). The machine was shared with other runs, so not every change went through all twenty "
       "checks; the checks that carry the use dimensions added in this session (C01, C06, C11, C13, C16, C19; C20 for the import-machinery changes) were given priority. "
       "A benign change must leave every check silent (exit 0).", "", "| change | checks run | result |", "|---|---|---|"]
bad = 0
for name in sorted(res):
    r = res[name]
    non = {p: v for p, v in r.items() if v != "silent"}
    bad += bool(non)
    ran = "all 20" if len(r) == 20 else ", ".join(sorted(r))
    out.append(f"| {name} | {ran} | {'silent' if not non else '; '.join(p + ' ' + v.replace('|', '/') for p, v in sorted(non.items()))} |")
out.insert(5, f"{len(res) - bad} of {len(res)} changes silent on every check that was run against them.\n")
open(os.path.join(V, "seeded_benign", "RESULTS.md"), "w").write("\n".join(out) + "\n")
print(len(res), "changes;", bad, "non-silent")
