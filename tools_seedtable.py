#!/venv/bin/python
"""Writes seeded/INDEX.md (one row per independently seeded change: property, what it needs, which quick checks caught it)
from seeded/*/meta.json + selftest/matrix.json, and copies the catch list into each meta.json ('checks_run')."""
import json, os, glob
V = os.path.dirname(os.path.abspath(__file__))
mx = json.load(open(f"{V}/selftest/matrix.json")) if os.path.exists(f"{V}/selftest/matrix.json") else {}
rows = []
for d in sorted(glob.glob(f"{V}/seeded/*/")):
    name = os.path.basename(d.rstrip("/"))
    mp = d + "meta.json"
    if not os.path.exists(mp):
        continue
    meta = json.load(open(mp))
    res = mx.get(name, {})
    caught = sorted(p for p, rc in res.items() if rc == 1)
    meta["checks_run"] = {f"quick checks {'(all 20)' if len(res) == 20 else ', '.join(sorted(res))} against a scratch copy with the patch applied (selftest/matrix.py)": {
        "exit_1_VIOLATION": caught, "exit_2_inconclusive": sorted(p for p, rc in res.items() if rc == 2)}} if res else meta.get("checks_run", {})
    json.dump(meta, open(mp, "w"), indent=1)
    own = meta["property"] in caught
    needs = " ".join(meta.get("needs", "").split())[:230]
    ran = "all 20" if len(res) == 20 else (", ".join(sorted(res)) if res else "-")
    verdict = 'yes' if own else ('**no** (by ' + ', '.join(caught) + ')' if caught else ('**NOT CAUGHT**' if res else 'no result recorded here (caught / out of scope as summarised per round in DESIGN §12)'))
    rows.append(f"| {name} | {meta['property']} | {verdict} | {', '.join(c for c in caught if c != meta['property'])} | {ran} | {needs} |")
open(f"{V}/seeded/INDEX.md", "w").write(
    "# Independently seeded property-breaking changes\n\nEach was written by a fresh sub-agent that saw only the property text and a scratch worktree, passes the unedited "
    "suite (251 passed + the pre-existing failure), and comes with a demo that fails with the change and passes without it (confirmed by tools_seed.py).\n\n"
    "| change | breaks | caught by its own property's quick check | also caught by | checks run | what it does / needs |\n|---|---|---|---|---|---|\n" + "\n".join(rows) + "\n")
print(len(rows), "rows;", sum("yes" in r.split("|")[3] for r in rows), "caught by own check")
