#!/venv/bin/python
"""Folds the output of selftest/run.py (one line per seeded change: '<id> <prop> break suite=PASS -> CAUGHT|MISSED|INCONCLUSIVE') into
selftest/matrix.json as results of the change's OWN property's quick check (1 = exit 1 + VIOLATION line, 0 = exit 0, 2 = inconclusive).
Later logs win.   tools_runlog2matrix.py run1.log run2.log ..."""
import json, os, re, sys
V = os.path.dirname(os.path.abspath(__file__))
path = f"{V}/selftest/matrix.json"
mx = json.load(open(path)) if os.path.exists(path) else {}
n = 0
for f in sys.argv[1:]:
    for ln in open(f):
        m = re.match(r"^(C\d\d-r\d+-\d+|C\d\d-\d+)\s+(C\d\d)\s+break\s+suite=\S+\s+->\s+(CAUGHT|MISSED|INCONCLUSIVE)", ln)
        if m:
            name, prop, res = m.groups()
            mx.setdefault(name, {})[prop] = {"CAUGHT": 1, "MISSED": 0, "INCONCLUSIVE": 2}[res]
            n += 1
json.dump(mx, open(path, "w"), indent=1, sort_keys=True)
print(n, "results folded in")
