"""Per-shard record of what a monitor observed. JSON-able; merged by the runner."""
from __future__ import annotations

import collections
import hashlib
import json

MAX_VIOLATIONS_PER_SHARD = 8
MAX_SAMPLES_PER_SHARD = 3


def h(obj) -> str:
    if not isinstance(obj, (str, bytes)):
        obj = json.dumps(obj, sort_keys=True, default=str)
    if isinstance(obj, str):
        obj = obj.encode("utf-8", "surrogatepass")
    return hashlib.blake2b(obj, digest_size=6).hexdigest()


def hi(obj) -> int:
    if not isinstance(obj, (str, bytes)):
        obj = json.dumps(obj, sort_keys=True, default=str)
    if isinstance(obj, str):
        obj = obj.encode("utf-8", "surrogatepass")
    return int.from_bytes(hashlib.blake2b(obj, digest_size=7).digest(), "big")


class Rec:
    def __init__(self, prop: str) -> None:
        self.prop = prop
        self.evaluations = 0  # oracle evaluations
        self.distinct: set[int] = set()  # 56-bit hashes of distinct non-trivial case keys
        self.disjoint = 0  # distinct cases counted inside an enumerated slice (disjoint across shards)
        self.classes: collections.Counter = collections.Counter()
        self.monitor: collections.Counter = collections.Counter()
        self.violations: list[dict] = []
        self.samples: list = []
        self.inconclusive: list[str] = []
        self.diagnostics: list[str] = []
        self.maxima: dict[str, float] = {}
        self.sets: dict[str, set] = collections.defaultdict(set)

    # -- counting -------------------------------------------------------------------------
    def ev(self, n: int = 1) -> None:
        self.evaluations += n

    def cls(self, name: str, n: int = 1) -> None:
        self.classes[name] += n

    def mon(self, name: str, n: int = 1) -> None:
        self.monitor[name] += n

    def key(self, obj) -> None:
        self.distinct.add(hi(obj))

    def mx(self, name: str, v: float) -> None:
        if v > self.maxima.get(name, float("-inf")):
            self.maxima[name] = v

    def into(self, name: str, v) -> None:
        s = self.sets[name]
        if len(s) < 5000:
            s.add(v)

    def sample(self, obj) -> None:
        if len(self.samples) < MAX_SAMPLES_PER_SHARD:
            self.samples.append(obj)

    def diag(self, msg: str) -> None:
        if len(self.diagnostics) < 20:
            self.diagnostics.append(msg)

    # -- verdicts --------------------------------------------------------------------------
    @property
    def full(self) -> bool:
        return len(self.violations) >= MAX_VIOLATIONS_PER_SHARD

    def violation(self, kind: str, message: str, case: dict, mechanism: str | None = None) -> None:
        """kind: short machine name of the broken clause; case: JSON-able, replayable."""
        self.monitor["violations_seen"] += 1
        if self.full:
            return
        self.violations.append(
            {"property": self.prop, "kind": kind, "message": message[:2000], "case": case,
             "mechanism": mechanism or kind}
        )

    def inconc(self, reason: str) -> None:
        if reason not in self.inconclusive:
            self.inconclusive.append(reason)

    def dump(self) -> dict:
        return {
            "evaluations": self.evaluations,
            "distinct": sorted(self.distinct),
            "disjoint": self.disjoint,
            "classes": dict(self.classes),
            "monitor": dict(self.monitor),
            "violations": self.violations,
            "samples": self.samples,
            "inconclusive": self.inconclusive,
            "diagnostics": self.diagnostics,
            "maxima": self.maxima,
            "sets": {k: sorted(v, key=str) for k, v in self.sets.items()},
        }
