"""Seeded generators of well-formed charts with known ground truth (see vmon.model for 'truth').

"Well-formed" = what Moonscraper writes (README: the only supported input); DESIGN §3.1 lists the
rules.  Nothing here imports chartparse; `tempo_ok` (a predicate injected by the harness) only lets
checks other than C08 avoid tempo values the tree under test refuses in isolation.
"""
from __future__ import annotations

import random
from fractions import Fraction

from vmon import model
from vmon.model import ALL_PAIRS, PASCAL, STRING_FIELDS, TempoMap, header

US = 10**6
tempo_ok = None  # callable(n) -> bool, set by harness
rerouted = 0


def usable_n(n: int) -> int:
    global rerouted
    if tempo_ok is None:
        return n
    m = n
    for _ in range(50):
        if tempo_ok(m):
            if m != n:
                rerouted += 1
            return m
        m += 1
    return n


# ------------------------------------------------------------------------------------------ values
def gen_resolution(rng: random.Random, profile: str) -> int:
    if profile == "realistic":
        return rng.choice([192, 192, 192, 480, 96, 120, 240, 384, 960])
    if profile == "stress":
        return rng.choice([192, 480])
    r = rng.random()
    if r < 0.35:
        return rng.choice([1, 2, 3, 4, 5, 7, 11, 13, 100, 191, 193, 1000])
    if r < 0.6:
        return rng.choice([96, 192, 480, 960])
    return rng.randint(1, 10**4)


def pick_n(rng: random.Random, profile: str) -> int:
    if profile in ("realistic", "stress"):
        r = rng.random()
        if r < 0.5:
            return rng.randint(40, 300) * 1000
        if r < 0.8:
            return rng.randint(40000, 300000)
        return rng.randint(60, 240) * 1000 + rng.choice([500, 250, 125, 333, 667])
    r = rng.random()
    if r < 0.15:
        return rng.choice([1, 2, 999, 1000, 1001, 1118, 20548, 59999, 60000, 10**6, 10**9, 10**9 - 1, 123456789])
    if r < 0.6:
        return int(10 ** rng.uniform(0, 9))
    return rng.randint(1000, 999999)


def gen_tempos(rng: random.Random, profile: str, res: int, count: int, limit_us: int,
               gap_fn=None) -> list[list[int]]:
    """Strictly increasing tempo map, first at tick 0, total exact time at last tempo < limit."""
    tempos = []
    t = 0
    cum = Fraction(0)
    limit = Fraction(limit_us) * Fraction(3, 4)
    for i in range(count):
        n = pick_n(rng, profile)
        share = (limit - cum) / (count - i + 1)
        upt = Fraction(60 * US * 1000, n * res)
        if upt * 2 > share:  # make at least two ticks fit
            n = min(10**9, int(Fraction(2 * 60 * US * 1000) / (res * share)) + 1)
        n = usable_n(n)
        upt = Fraction(60 * US * 1000, n * res)
        tempos.append([t, n])
        max_len = max(1, int(share / upt))
        if gap_fn is not None:
            ln = gap_fn(rng, i)
        elif profile == "realistic":
            ln = res * rng.choice([1, 2, 4, 4, 8, 16, 32]) if rng.random() < 0.8 else rng.randint(1, 8 * res)
        elif profile == "stress":
            ln = res * rng.choice([1, 2, 4])
        else:
            r = rng.random()
            ln = 1 if r < 0.25 else rng.randint(2, 5) if r < 0.45 else rng.randint(1, 4 * res + 5) if r < 0.8 \
                else rng.randint(1, 10**6)
        ln = max(1, min(ln, max_len))
        t += ln
        cum += ln * upt
    return tempos


def time_limit(rng: random.Random, profile: str) -> int:
    if profile == "realistic":
        return 1200 * US
    if profile == "stress":
        return 7200 * US
    return rng.choice([60 * US, 3600 * US, 10**5 * US, 9 * 10**5 * US])


def interesting_ticks(rng: random.Random, tm: TempoMap, horizon: int, k: int) -> list[int]:
    out = set()
    for _ in range(k):
        r = rng.random()
        if r < 0.45 and tm.ticks:
            out.add(rng.choice(tm.ticks) + rng.choice([-1, 0, 0, 1]))
        elif r < 0.5:
            out.add(0)
        elif r < 0.6:
            out.add(horizon - rng.randint(0, 3))
        else:
            out.add(rng.randint(0, max(0, horizon)))
    return sorted(x for x in out if 0 <= x <= horizon)


# ------------------------------------------------------------------------------------------ text pools
# text that went through a wrong decoding once and is now simply the song's text ("mojibake"): every character is encodable in
# Windows-1252 and the bytes happen to be valid UTF-8 - text like any other, to be carried verbatim
MOJIBAKE = ["Ã©tude", "100Â°", "â€”", "donâ€™t", "Ã¼ber", "MotÃ¶rhead", "Â«", "Ã±"]
WORDS = ["solo", "soloend", "soloing", "section", "lyric", "phrase_start", "phrase_end", "idle", "play",
         "half_tempo", "x", "E", "N", "S", "2", "=", "a=b", "[tag]", "café", "テスト", "{", "}", "\"q\"",
         "don't", "0", "007", "B", "TS"] + MOJIBAKE
# what real charts carry in names, lyrics and section titles: printf/format-looking text, rich-text tags (Clone Hero renders them),
# typographic quotes, escaped quotes, "Artist - Title" separators, HTML entities, shell/template sigils
MARKUP = ["%", "%s", "%d", "100%", "%%", "%(x)s", "{0}", "{}", "{x}", "$", "${x}", "$1", "&", "&amp;", "<", ">", "<b>", "</b>", "<i>",
          "<color=#00FF00>", "</color>", "<size=10>", "\u201c", "\u201d", "\u201e", "\u201f", "\u2018", "\u2019", "\u00ab", "\u00bb",
          " - ", " \u2013 ", "\\\"", "\\n", "\\t", "\\\\", "|", "~", "^", "`", "@", "*", "!", "?", ":", "+", "_",
          # pattern / replacement syntax (to code that interpolates chart text into a regular expression or a re.sub replacement)
          "\\1", "\\g<0>", "\\0", ".*", "(?i)", "[a-z]", "(", ")", "a|b", "\\b", "\\d+", "$1"]
# characters without a glyph that pasted text carries (zero-width no-break space = U+FEFF away from the start of a file, zero-width
# space / joiner, left-to-right mark, soft hyphen, word joiner): they are text like any other
# characters whose lower / upper / casefold forms have ANOTHER LENGTH (U+0130 lowers to two code points, sharp s uppers to SS, the fi
# ligature casefolds to two letters): text processed on a case-changed copy and sliced from the original comes out shifted
CASE_LENGTH = ["\u0130", "\u0130stanbul", "\u00df", "\ufb01", "\u0149", "\u01f0"]
INVISIBLE = ["\ufeff", "\u200b", "\u200d", "\u200e", "\u00ad", "\u2060"]
# the names of the event kinds themselves, as words of ordinary text ("text on", "texture", "lyrics", "sectional")
KIND_WORDS = ["text ", "text", "Text ", "texture", "lyrics", "sectional", "E ", " = E ", "event "]
TEXT_ALPHABET = ["a", "b", "Z", "1", " ", " ", "\"", "=", "[", "]", "{", "}", "\\", "\t", "\u00a0", "\u3000", "\u00e9", "e\u0301", "\u212b",
                 "\u00df", "\u4e16", "lyric", "section", "lyric ", "section ", "LYRIC ", "Section ", "-", "'", ",", ".", "E"] * 2 + MARKUP + INVISIBLE + KIND_WORDS + MOJIBAKE + CASE_LENGTH
VALUE_ALPHABET = ["a", "b", "Q", "7", " ", "\"", "=", ",", "\t", "\u00e9", "\u4e16", "'", "-", ".", "(", ")", "\u00a0",
                  "e\u0301", "\u2126", "\u212b", "\uf900", "\u304b\u3099", "\u1100\u1161", "\ufb01",  # incl. text that is not NFC/NFKC-normalised
                  "/", "//", " // ", "#", ";", "\\", "%", "{", "}", "[", "]"] * 2 + MARKUP + INVISIBLE + MOJIBAKE + CASE_LENGTH


def gen_word(rng: random.Random) -> str:
    if rng.random() < 0.6:
        return rng.choice(WORDS)
    n = rng.randint(1, 12)
    return "".join(rng.choice("abcXYZ019_-=\"[]{}é世'.,;:!?*/\\") for _ in range(n))


def gen_event_text(rng: random.Random, hostile: bool) -> tuple[str, str, str | None]:
    """returns (raw text between the outer quotes, kind, value); kind 'none' = must be skipped"""
    r = rng.random()
    if not hostile:
        if r < 0.4:
            v = rng.choice(["Intro", "Verse 1", "Chorus", "Solo 1", "Bridge", "Outro", "Guitar Solo 2a", "100% Solo", "Solo <b>2</b>", "Gtr_Solo", "__", "verse_1a", "\u0130stanbul",
                            "Verse \u201cA\u201d", "Pre-Chorus - Fast", "Q&A", "say \\\"hi\\\"", "{Bridge}", "Fill #3 (50%)"])
            return "section " + v, "section", v
        if r < 0.8:
            v = rng.choice(["Hel-", "lo", "world", "I'm", "a", "syl-", "la-", "ble", "+", "to-", "night!", "100%", "<i>oh</i>", "\u201cyeah\u201d",
                            "say \\\"hi\\\"", "rock&roll", "$$$", "{x}", "%s"])
            return "lyric " + v, "lyric", v
        v = rng.choice(["phrase_start", "phrase_end", "music_start", "end", "crowd_clap", "idle", "coda", "end", "music_end", "100%", "%d bars",
                        "<b>", "a - b", "text on", "text", "texture off", "lyrics on", "sectional", "event x", "key = E minor", "zero\u200bwidth",
                        "prc_intro", "prc_verse_1", "prc_gtr_solo_1", "section_a", "lyric_x", "Gtr_Solo"])
        return v, "text", v
    body = "".join(rng.choice(TEXT_ALPHABET) for _ in range(rng.randint(0, 8)))
    if r < 0.3:
        return "lyric " + body, "lyric", body
    if r < 0.6:
        return "section " + body, "section", body
    if r < 0.68:
        w = rng.choice(["lyric", "section", "lyrics x", "sections x", "Lyric x", "SECTION x", " lyric x", " section x", "lyric\tx"])
        if "\"" in w:
            return w, "none", None
        return w, "text", w
    return classify_text(body)


def classify_text(text: str) -> tuple[str, str, str | None]:
    if text.startswith("lyric "):
        return text, "lyric", text[6:]
    if text.startswith("section "):
        return text, "section", text[8:]
    if "\"" in text:
        return text, "none", None
    return text, "text", text


def gen_string_value(rng: random.Random, hostile: bool) -> str:
    if not hostile:
        return rng.choice(["Song Name", "The Artist", "charter42", "Album (Deluxe)", ", 2018", "song.ogg", "guitar.ogg",
                           "rock", "cd", "Motörhead", "テスト", "Knights of Cydonia - Live at Wembley", "AC/DC - T.N.T.", "<color=#00FF00>Nick</color>",
                           "<b>power</b> metal", "\u201cHeroes\u201d", "Die \u201eToten Hosen\u201c", "12\u201d Singles", "100% (Remix)", "R&B", "a - b",
                           "Album <size=10>(Special Edition)</size>", "50%s off", "{0} - {1}", "C:\\songs\\x.ogg", "Pasted\ufeff Name", "soft\u00adhyphen",
                           "Through the Fire {Live}", "Intro {} Outro", "Medley {1/3}", "MotÃ¶rhead", "Donâ€™t Stop", "\u0130stanbul", "Stra\u00dfe"])
    r = rng.random()
    if r < 0.2:
        f = rng.choice(list(PASCAL.values()))
        return rng.choice([f, f + " = \"x\"", f + " = 5", "Name = \"x\"", "  Resolution = 192", "Player2 = bass"])
    if r < 0.3:
        return rng.choice(["\"", "\"\"", "\"x\"", "x\"", "\"x", " x", "x ", " ", "\t", "x\t", "0", "007", "192", "bass", "rhythm"])
    return "".join(rng.choice(VALUE_ALPHABET) for _ in range(rng.randint(1, 10)))


def fmt_int(rng: random.Random | None, v: int, zeros: bool) -> str:
    s = str(v)
    if zeros and rng is not None and rng.random() < 0.3:
        s = "0" * rng.randint(1, 4) + s
    return s


# ------------------------------------------------------------------------------------------ sections
def gen_metadata(rng: random.Random, profile: str, res: int, fields: list[str] | None = None,
                 res_pos: str | None = None) -> tuple[dict, list[str]]:
    hostile = profile == "hostile"
    md = {"resolution": res}
    if fields is None:
        opt = [f for f in model.ALL_FIELDS if f != "resolution"]
        if profile == "realistic":
            fields = [f for f in opt if rng.random() < 0.6]
        else:
            fields = [f for f in opt if rng.random() < rng.choice([0.1, 0.5, 0.9])]
    for f in fields:
        if f in ("offset", "difficulty", "preview_start", "preview_end"):
            md[f] = rng.choice([0, 0, 1, 5, 120, 99999999, rng.randint(0, 10**12), 2**53 + 1, 2**63 - 1, rng.randint(10**17, 10**30)]) if hostile \
                else rng.choice([0, 0, 3, 30, 60])
        elif f == "player2":
            md[f] = rng.choice(["bass", "rhythm"])
        else:
            md[f] = gen_string_value(rng, hostile)
    names = list(md)
    rng.shuffle(names)
    if res_pos == "first" or (res_pos is None and rng.random() < 0.15):
        names.remove("resolution")
        names.insert(0, "resolution")
    elif res_pos == "last" or (res_pos is None and rng.random() < 0.15):
        names.remove("resolution")
        names.append("resolution")
    lines = [metadata_line(rng, f, md[f], hostile) for f in names]
    return md, lines


def metadata_line(rng, f: str, v, zeros: bool = False) -> str:
    if f in model.INT_FIELDS:
        return f"  {PASCAL[f]} = {fmt_int(rng, v, zeros)}"
    if f == "player2":
        return f"  {PASCAL[f]} = {v}"
    return f"  {PASCAL[f]} = \"{v}\""


def gen_sync(rng: random.Random, profile: str, res: int, tempos: list, horizon: int) -> tuple[list, list, list[str]]:
    hostile = profile == "hostile"
    tm_ticks = [t for t, _ in tempos]
    n_ts = rng.choice([1, 1, 2, 3, 6]) if profile != "stress" else 3
    ts_ticks = sorted(set([0] + [rng.choice(tm_ticks + [rng.randint(0, horizon)]) + rng.choice([-1, 0, 1])
                                 for _ in range(n_ts - 1)]))
    ts_ticks = [t for t in ts_ticks if 0 <= t <= horizon]
    timesigs = []
    for t in ts_ticks:
        u = rng.choice([4, 3, 6, 7, 12]) if not hostile else rng.choice([0, 1, 4, 64, rng.randint(0, 10**9)])
        e = rng.choice([None, None, 2, 3]) if not hostile else rng.choice([None, 0, 1, 2, 3, 4, 8, 16, rng.randint(0, 16)])
        timesigs.append([t, u, e])
    anchors = []
    if rng.random() < 0.4:
        for t in sorted(set(rng.choice(tm_ticks) for _ in range(rng.randint(1, 4)))):
            anchors.append([t, rng.choice([0, 1, 999999, 10**6, rng.randint(0, 10**13 if hostile else 10**9)])])
    items = [(t, 1, f"  {fmt_int(rng, t, hostile)} = B {fmt_int(rng, n, hostile)}") for t, n in tempos]
    items += [(t, 0, f"  {fmt_int(rng, t, hostile)} = TS {fmt_int(rng, u, hostile)}" + ("" if e is None else f" {e}"))
              for t, u, e in timesigs]
    items += [(t, 2, f"  {fmt_int(rng, t, hostile)} = A {us}") for t, us in anchors]
    if rng.random() < 0.7:
        items.sort(key=lambda x: (x[0], x[1]))  # Moonscraper: by tick, TS before B
    else:
        items = random_merge(rng, [[x for x in items if x[1] == k] for k in (0, 1, 2)])
    return timesigs, anchors, [x[2] for x in items]


def random_merge(rng: random.Random, seqs: list[list]) -> list:
    seqs = [list(s) for s in seqs if s]
    out = []
    idx = [0] * len(seqs)
    remaining = sum(len(s) for s in seqs)
    while remaining:
        weights = [len(s) - i for s, i in zip(seqs, idx)]
        j = rng.choices(range(len(seqs)), weights=weights)[0]
        out.append(seqs[j][idx[j]])
        idx[j] += 1
        remaining -= 1
    return out


def gen_globals(rng: random.Random, profile: str, tm: TempoMap, horizon: int, count: int) -> tuple[list, list[str]]:
    hostile = profile == "hostile"
    ticks = sorted(rng.choice(interesting_ticks(rng, tm, horizon, 6) or [0]) for _ in range(count))
    globals_, lines = [], []
    runs = run_structured_kinds(rng, len(ticks)) if (len(ticks) >= 20 and rng.random() < 0.3) else None
    for j, t in enumerate(ticks):
        if runs is not None:
            kind = runs[j]
            value = f"r{j}" if rng.random() < 0.8 else gen_event_text(rng, False)[2] or "x"
            raw = raw_event_text(kind, value)
            if kind == "text" and (value.startswith("lyric ") or value.startswith("section ") or "\"" in value):
                value = raw = f"r{j}"
            lines.append(f"  {fmt_int(rng, t, hostile)} = E \"{raw}\"")
            globals_.append([t, kind, value])
            continue
        raw, kind, value = gen_event_text(rng, hostile)
        if kind == "none":
            continue  # inner quotes without a lyric/section prefix: don't-care (the statement is silent), never emitted
        lines.append(f"  {fmt_int(rng, t, hostile)} = E \"{raw}\"")
        globals_.append([t, kind, value])
    return globals_, lines


def lane_subset(rng: random.Random) -> list[int]:
    r = rng.random()
    if r < 0.5:
        return [rng.randrange(5)]
    k = rng.choice([2, 2, 2, 3, 3, 4, 5])
    return sorted(rng.sample(range(5), k))


def gen_track(rng: random.Random, profile: str, res: int, tm: TempoMap, horizon: int, n_groups: int,
              pad: bool = False, n_phrases: int | None = None) -> tuple[dict, list[str]]:
    hostile = profile == "hostile"
    thr = model.hopo_threshold(res)
    groups = []
    t = rng.choice([0, 0, rng.randint(0, max(0, min(horizon, 4 * res)))])
    tempo_ticks = tm.ticks
    for gi in range(n_groups):
        if t > horizon:
            break
        r = rng.random()
        g: dict = {"tick": t, "lanes": {}, "open": None, "forced": False, "tap": False}
        maxlen = max(0, horizon - t)
        if r < 0.1:
            g["open"] = 0 if rng.random() < 0.6 else rng.randint(1, max(1, min(maxlen, 4 * res)))
            if g["open"] > maxlen:
                g["open"] = maxlen
        else:
            lanes = lane_subset(rng)
            mode = rng.random()
            base = rng.randint(1, max(1, min(maxlen, 4 * res))) if maxlen >= 1 else 0
            for ln in lanes:
                if mode < 0.55 or maxlen < 1:
                    v = 0
                elif mode < 0.75:
                    v = base
                else:
                    v = rng.choice([0, base, rng.randint(0, max(1, min(maxlen, 8 * res)))])
                g["lanes"][str(ln)] = min(v, maxlen)
        if gi > 0 and rng.random() < 0.2:
            g["forced"] = True
        if rng.random() < 0.1:
            g["tap"] = True
        g["flag_len"] = rng.randint(1, 500) if (hostile and rng.random() < 0.3) else 0
        groups.append(g)
        # next tick
        r = rng.random()
        if hostile:
            gap = rng.choice([1, 1, 2, max(1, thr - 1), max(1, thr), thr + 1, thr + 2, res, rng.randint(1, 3 * res + 3)])
            if r < 0.25 and tempo_ticks:
                nxt = [x + rng.choice([-1, 0, 1]) for x in tempo_ticks if x + 1 > t]
                if nxt:
                    cand = rng.choice(nxt[:3])
                    if cand > t:
                        gap = cand - t
        else:
            gap = max(1, res // rng.choice([1, 1, 2, 2, 3, 4, 4, 6, 8])) * rng.choice([1, 1, 1, 2, 3])
            if r < 0.12 and tempo_ticks:  # move on to the neighbourhood of a later tempo change
                nxt = [x for x in tempo_ticks if x > t + gap]
                if nxt:
                    gap = nxt[0] + rng.choice([-1, 0, 0, 1]) * max(1, res // rng.choice([1, 2, 4])) - t
                    if gap < 1:
                        gap = 1
        # charts are full of notes that start exactly where a held lane of the previous note is released (sustain == gap), also
        # when that lane is not the longest one of its chord
        held = sorted({v for v in g["lanes"].values() if v > 0} | ({g["open"]} if g.get("open") else set()))
        if held and rng.random() < 0.2:
            gap = rng.choice(held)
        t += gap
    # star power phrases, ordered by start
    note_ticks = [g["tick"] for g in groups] or [0]
    if n_phrases is None:
        n_phrases = rng.choice([0, 1, 2, 3, 5]) if not hostile else rng.choice([0, 1, 2, 4, 8, 20])
    phrases = []
    for _ in range(n_phrases):
        s = max(0, rng.choice(note_ticks) + rng.choice([-2, -1, 0, 0, 0, 1]))
        if hostile:
            e = rng.choice(note_ticks) + rng.choice([-1, 0, 1, 2])
            ln = rng.choice([0, 0, 1, 2, max(0, e - s), rng.randint(0, 4 * res + 4)])
        else:
            ln = res * rng.choice([2, 4, 8])
        phrases.append([s, ln])
    phrases.sort(key=lambda p: p[0])
    if not hostile:  # Moonscraper never overlaps phrases
        kept, end = [], -1
        for s, ln in phrases:
            if s >= end:
                kept.append([s, ln])
                end = s + ln
        phrases = kept
    tevents = sorted([[rng.choice(note_ticks + [rng.randint(0, horizon)]), gen_word(rng) if hostile else rng.choice(["solo", "soloend", "solo", "soloend", "Ã©tude", "100Â°"])]
                      for _ in range(rng.choice([0, 0, 1, 2, 4]))], key=lambda e: e[0])
    tevents = [e for e in tevents if " " not in e[1] and e[1] != "" and not any(c.isspace() for c in e[1])]
    truth = {"groups": groups, "phrases": phrases, "tevents": tevents}
    return truth, render_track_body(rng, truth, hostile, pad)


def group_lines(rng: random.Random | None, g: dict, zeros: bool = False, pad: bool = False, permute: bool = False) -> list[str]:
    t = g["tick"]
    fl = g.get("flag_len", 0)
    first = []
    rest = []
    if g.get("open") is not None:
        first.append((7, g["open"]))
    for k in sorted(g["lanes"], key=int):
        rest.append((int(k), g["lanes"][k]))
    if g.get("forced"):
        rest.append((5, fl))
    if g.get("tap"):
        rest.append((6, fl))
    if permute and rng is not None:
        rng.shuffle(rest)
    out = []
    for idx, ln in first + rest:
        line = pad_line(rng, f"{fmt_int(rng, t, zeros)} = N {idx} {fmt_int(rng, ln, zeros)}", pad)
        if idx in (5, 6) and rng is not None and rng.random() < 0.4:
            line += " "  # as Moonscraper itself writes flag lines: "825 = N 5 0 " (tests/data/test.chart has them)
        out.append(line)
    return out


def pad_line(rng: random.Random | None, core: str, pad: bool) -> str:
    if pad and rng is not None and rng.random() < 0.5:
        return rng.choice(["", " ", "  ", "\t", "    ", " \t "]) + core + rng.choice(["", " ", "  ", "\t", " \t"])
    return "  " + core


def render_track_body(rng: random.Random, tr: dict, hostile: bool = False, pad: bool = False) -> list[str]:
    nseq, sseq, eseq = [], [], []
    for g in tr["groups"]:
        for ln in group_lines(rng, g, hostile, pad, permute=rng.random() < 0.3):
            nseq.append((g["tick"], ln))
    for s, ln in tr["phrases"]:
        sseq.append((s, pad_line(rng, f"{fmt_int(rng, s, hostile)} = S 2 {fmt_int(rng, ln, hostile)}", pad)))
    for t, w in tr["tevents"]:
        eseq.append((t, pad_line(rng, f"{fmt_int(rng, t, hostile)} = E {w}", pad)))
    if rng.random() < 0.7:
        # by tick; lines of the same tick in random kind order (S/E may fall between N lines of one tick)
        merged = []
        seqs = [nseq, sseq, eseq]
        idx = [0, 0, 0]
        while any(i < len(s) for i, s in zip(idx, seqs)):
            heads = [(seqs[j][idx[j]][0], j) for j in range(3) if idx[j] < len(seqs[j])]
            mn = min(h[0] for h in heads)
            j = rng.choice([j for tck, j in heads if tck == mn])
            merged.append(seqs[j][idx[j]])
            idx[j] += 1
    else:
        merged = random_merge(rng, [nseq, sseq, eseq])
    return [ln for _, ln in merged]


# ------------------------------------------------------------------------------------------ whole charts
def render_sections(sections: list[tuple[str, list[str]]], newline: str = "\n", final: bool = True) -> str:
    """newline "mixed" = every line ends in LF or in CRLF, alternating irregularly (files that went through several editors);
    final=False = no line terminator after the last brace"""
    out = []
    for name, body in sections:
        out.append(f"[{name}]")
        out.append("{")
        out.extend(body)
        out.append("}")
    if newline == "mixed":
        text = "".join(ln + ("\r\n" if (i * 7 + len(ln)) % 3 == 0 else "\n") for i, ln in enumerate(out))
    else:
        text = newline.join(out) + newline
    if not final:
        text = text[:-2] if text.endswith("\r\n") else text[:-1]
    return text


def split_sections(text: str) -> list:
    """inverse of render_sections for texts it rendered (used by replays)"""
    secs, name, body = [], None, None
    for ln in text.splitlines():
        if body is None and ln.startswith("[") and ln.endswith("]"):
            name = ln[1:-1]
        elif body is None and ln == "{":
            body = []
        elif body is not None and ln == "}":
            secs.append([name, body])
            name, body = None, None
        elif body is not None:
            body.append(ln)
    return secs


def gen_chart(rng: random.Random, profile: str = "realistic", *, n_tempos: int | None = None,
              n_tracks: int | None = None, n_groups: int | None = None, n_globals: int | None = None,
              res: int | None = None, pad: bool = False, shuffle_sections: bool = True, newline: str | None = None,
              pairs: list | None = None, tempo_gap_fn=None) -> dict:
    """Returns a case: {"text", "truth", "sections": [[name, body]], "profile"}"""
    hostile = profile == "hostile"
    if res is None:
        res = gen_resolution(rng, profile)
    limit = time_limit(rng, profile)
    if n_tempos is None:
        n_tempos = rng.choice([1, 2, 3, 5, 8, 13]) if profile == "realistic" else \
            rng.choice([1, 2, 4, 9, 20, 60]) if hostile else 200
    tempos = gen_tempos(rng, profile, res, n_tempos, limit, tempo_gap_fn)
    tm = TempoMap(res, tempos)
    horizon = tm.horizon(limit)
    if profile == "realistic":
        horizon = min(horizon, tm.ticks[-1] + 64 * res)
    elif hostile:
        horizon = min(horizon, tm.ticks[-1] + rng.choice([3, 40 * res, 10**6]))
    md, md_lines = gen_metadata(rng, profile, res)
    timesigs, anchors, sync_lines = gen_sync(rng, profile, res, tempos, horizon)
    if n_globals is None:
        n_globals = rng.choice([0, 3, 10, 30]) if profile != "stress" else 500
    globals_, ev_lines = gen_globals(rng, profile, tm, horizon, n_globals)
    if pairs is None:
        if n_tracks is None:
            n_tracks = rng.choice([0, 1, 1, 2, 4]) if profile != "stress" else 2
        pairs = rng.sample(ALL_PAIRS, n_tracks)
    tracks = {}
    sections = [("Song", md_lines), ("SyncTrack", sync_lines), ("Events", ev_lines)]
    for inst, diff in pairs:
        ng = n_groups if n_groups is not None else (rng.choice([0, 1, 5, 20, 60]) if profile != "stress" else 3000)
        tr, body = gen_track(rng, profile, res, tm, horizon, ng, pad=pad)
        tracks[f"{inst}/{diff}"] = tr
        sections.append((header(inst, diff), body))
    if shuffle_sections and rng.random() < 0.5:
        rng.shuffle(sections)
    final = True
    if newline is None:
        newline = rng.choice(["\n"] * 6 + ["\r\n"] * 3 + ["mixed"])
        final = rng.random() < 0.85
    truth = {"resolution": res, "metadata": md, "tempos": tempos, "timesigs": timesigs, "anchors": anchors,
             "globals": globals_, "tracks": tracks}
    return {"text": render_sections(sections, newline, final), "truth": truth,
            "sections": [[n, b] for n, b in sections], "profile": profile, "horizon": horizon}


def raw_event_text(kind: str, value: str) -> str:
    return {"lyric": "lyric ", "section": "section ", "text": ""}[kind] + value


def render_truth(truth: dict, rng: random.Random | None = None, newline: str = "\n", extra_sections=None,
                 permute_groups: bool = False) -> dict:
    """Canonical Moonscraper layout of a hand-built truth (everything sorted by tick). Returns a case."""
    res = truth["resolution"]
    md = truth.get("metadata") or {"resolution": res}
    truth["metadata"] = md
    md_lines = [metadata_line(None, f, md[f]) for f in md]
    items = [(t, 1, f"  {t} = B {n}") for t, n in truth["tempos"]]
    items += [(t, 0, f"  {t} = TS {u}" + ("" if e is None else f" {e}")) for t, u, e in truth["timesigs"]]
    items += [(t, 2, f"  {t} = A {us}") for t, us in truth.get("anchors", [])]
    items.sort(key=lambda x: (x[0], x[1]))
    truth.setdefault("anchors", [])
    truth.setdefault("globals", [])
    ev_lines = [f"  {t} = E \"{raw_event_text(k, v)}\"" for t, k, v in truth["globals"]]
    sections = [("Song", md_lines), ("SyncTrack", [x[2] for x in items]), ("Events", ev_lines)]
    for key, tr in truth.get("tracks", {}).items():
        inst, diff = key.split("/")
        tr.setdefault("phrases", [])
        tr.setdefault("tevents", [])
        lines = []
        for g in tr["groups"]:
            for ln in group_lines(rng, g, permute=permute_groups and rng is not None and rng.random() < 0.3):
                lines.append((g["tick"], 0, ln))
        for s_, ln in tr["phrases"]:
            lines.append((s_, 1, f"  {s_} = S 2 {ln}"))
        for t, w in tr["tevents"]:
            lines.append((t, 2, f"  {t} = E {w}"))
        lines.sort(key=lambda x: (x[0], x[1]))  # stable: keeps list order within a kind
        sections.append((header(inst, diff), [x[2] for x in lines]))
    truth.setdefault("tracks", {})
    for s_ in extra_sections or []:
        sections.append(s_)
    return {"text": render_sections(sections, newline), "truth": truth, "sections": [[n, b] for n, b in sections]}


# ------------------------------------------------------------------------------------------ extreme tick magnitudes
HUGE_BASES = [2**31 - 40, 2**32 - 60, 2**32 + 7, 10**10, 2**40 + 3, 10**12 - 500]


def huge_tick_chart(rng: random.Random, base: int | None = None) -> dict:
    """Every event kind at ticks around 2^31 / 2^32 / 10^10 / 10^12 (tick digit strings of 10-13 digits), with tempi fast
    enough that all times stay far below 10^6 s; sustains and star-power phrases that cross the power-of-two boundary."""
    K = base if base is not None else rng.choice(HUGE_BASES)
    res = rng.choice([192, 480, 960])
    fast = usable_n(10**9)
    tempos = [[0, fast], [K - 7, usable_n(10**9 - 1)], [K + 33, usable_n(5 * 10**8)], [K + 90, fast]]
    offs = sorted(rng.sample(range(0, 120), 14))
    groups = []
    for j, o in enumerate(offs):
        ln = rng.choice([0, 0, 3, 25, 70])
        lanes = {str(j % 5): ln}
        if j % 4 == 1:
            lanes[str((j + 2) % 5)] = rng.choice([0, ln, 11])
        groups.append({"tick": K + o, "lanes": lanes, "open": None, "forced": j > 0 and j % 5 == 2, "tap": j % 7 == 3})
    phrases = sorted([[K + rng.randint(-5, 100), rng.choice([0, 1, 5, 40, 200])] for _ in range(5)], key=lambda p: p[0])
    tevents = sorted([[K + rng.randint(0, 110), rng.choice(["solo", "soloend"])] for _ in range(3)], key=lambda e: e[0])
    globals_ = sorted([[K + rng.randint(0, 110), rng.choice(["text", "section", "lyric"]), f"v{i}"] for i in range(5)], key=lambda e: e[0])
    truth = {"resolution": res, "tempos": tempos, "timesigs": [[0, 4, None], [K + 1, 3, 3]], "anchors": [[K - 7, 12345]],
             "globals": globals_,
             "tracks": {"GUITAR/EXPERT": {"groups": groups, "phrases": phrases, "tevents": tevents},
                        "DRUMS/HARD": {"groups": [dict(g) for g in groups[::3]], "phrases": [[K + 2, 30]], "tevents": []}}}
    case = render_truth(truth)
    case["horizon"] = K + 400
    case["profile"] = "huge_ticks"
    return case


def run_structured_kinds(rng: random.Random, n: int) -> list[str]:
    """event kinds in long same-kind runs (e.g. 40 text events, then lyrics, then sections ...)"""
    out: list[str] = []
    while len(out) < n:
        out += [rng.choice(["text", "text", "lyric", "section"])] * rng.choice([1, 3, 17, 20, 40, 70, 130, 260])
    return out[:n]


# ------------------------------------------------------------------------------------------ ordinary features piled on the same ticks
EVENT_WORDS = ["solo", "soloend", "section", "lyric", "phrase_start", "phrase_end", "end", "B", "TS", "N", "S", "E", "2"]


def interaction_chart(rng: random.Random) -> dict:
    """A chart in which ordinary features COINCIDE: a handful of 'hot' ticks, each of which may at once carry a tempo change, a
    time-signature change, an anchor, a section + a lyric + a text event, a note of any shape (open+tap, forced chord, held chord)
    in several tracks, a phrase that starts / ends / has length zero there, a sustain that is released exactly there, and track
    events named like global-event words. Each feature alone is handled by the focused workloads; here they meet."""
    res = rng.choice([192, 192, 480, 96, 100, 120, 7])
    thr = model.hopo_threshold(res)
    m = rng.randint(4, 14)
    hot = [0] if rng.random() < 0.6 else [rng.choice([1, thr, res])]
    for _ in range(m - 1):
        hot.append(hot[-1] + rng.choice([1, max(1, thr - 1), max(1, thr), thr + 1, max(1, res // 2), res, res, 2 * res, 4 * res]))
    tempos = [[0, usable_n(rng.choice([120000, 60000, 93000, 200000, 87500, 144330]))]]
    timesigs = [[0, rng.choice([4, 3, 6]), rng.choice([None, None, 3])]]
    anchors = []
    for h in hot:
        if h > 0 and rng.random() < 0.55:
            tempos.append([h, usable_n(rng.choice([60000, 80000, 90500, 120000, 133333, 160000, 200000, 240000, 250001]))])
            if rng.random() < 0.5:
                anchors.append([h, rng.choice([0, 1, 999999, 10**6, rng.randint(0, 10**9)])])
        if h > 0 and rng.random() < 0.4:
            timesigs.append([h, rng.choice([2, 3, 4, 5, 6, 7, 9, 12]), rng.choice([None, None, 1, 2, 3, 4])])
    if hot[0] == 0 and rng.random() < 0.3:
        anchors.insert(0, [0, 0])
    globals_ = []
    for h in hot:
        if rng.random() < 0.6:
            kinds = rng.sample(["section", "lyric", "text", "lyric", "text"], rng.randint(1, 4))
            for j, k in enumerate(kinds):
                v = rng.choice(["solo", "soloend", "phrase_start", "phrase_end", "Verse 1", "a", "end", f"x{h}", "100%", "Solo 1"])
                if k == "text" and (v.startswith("lyric ") or v.startswith("section ")):
                    v = "end"
                globals_.append([h, k, v])
    shapes = ["single", "single", "chord", "held", "heldchord", "uneven", "open", "openheld"]

    def make_track(first_forced_ok: bool):
        groups, phrases, tevents = [], [], []
        sel = [h for h in hot if rng.random() < 0.8] or [hot[0]]
        for k, h in enumerate(sel):
            nxt = sel[k + 1:] + [h + res]
            target = rng.choice(nxt[:3]) - h  # a length that ends exactly on a later hot tick
            shape = rng.choice(shapes)
            g = {"tick": h, "lanes": {}, "open": None, "forced": False, "tap": False, "flag_len": 0}
            if shape == "open":
                g["open"] = 0
            elif shape == "openheld":
                g["open"] = target
            elif shape == "single":
                g["lanes"][str(rng.randrange(5))] = 0
            elif shape == "held":
                g["lanes"][str(rng.randrange(5))] = target
            else:
                ls = sorted(rng.sample(range(5), rng.choice([2, 2, 3, 5])))
                for j, ln in enumerate(ls):
                    g["lanes"][str(ln)] = 0 if shape == "chord" else target if shape == "heldchord" else (target if j == 0 else rng.choice([0, max(1, target // 2), target + 1]))
            if k > 0 and rng.random() < 0.35:
                g["forced"] = True
            if rng.random() < 0.3:
                g["tap"] = True
            groups.append(g)
        ticks = [g["tick"] for g in groups]
        for _ in range(rng.choice([0, 1, 2, 3, 4])):
            s = rng.choice(hot)
            later = [h for h in hot if h > s]
            e = rng.choice(later) if later and rng.random() < 0.75 else s + rng.choice([0, 1, res])
            phrases.append([s, e - s])  # ends exactly on a hot tick (a note there is outside), or has length zero
        phrases.sort(key=lambda p: p[0])
        for _ in range(rng.choice([0, 1, 2, 3])):
            tevents.append([rng.choice(hot), rng.choice(EVENT_WORDS)])
        tevents.sort(key=lambda e: e[0])
        return {"groups": groups, "phrases": phrases, "tevents": tevents}

    pairs = rng.sample(ALL_PAIRS, rng.choice([1, 2, 2, 3]))
    tracks = {f"{i}/{d}": make_track(False) for i, d in pairs}
    truth = {"resolution": res, "tempos": tempos, "timesigs": timesigs, "anchors": anchors, "globals": globals_, "tracks": tracks}
    if rng.random() < 0.5:
        md, _ = gen_metadata(rng, "realistic", res)
        truth["metadata"] = md
    case = render_truth(truth, rng, newline=rng.choice(["\n", "\n", "\r\n"]), permute_groups=True)
    case["profile"] = "interactions"
    case["horizon"] = hot[-1] + 8 * res
    return case


def chart_or_interactions(rng: random.Random, i: int, profile: str, rec=None, **kw) -> dict:
    """every fourth whole chart of a workload is one whose features coincide on a few ticks (interaction_chart)"""
    if i % 4 == 3:
        if rec is not None:
            rec.cls("whole_chart_with_coinciding_features")
        return interaction_chart(rng)
    return gen_chart(rng, profile, **kw)


def power_of_two_sustain_chart(rng: random.Random) -> dict:
    """sustains at and around 2^15 .. 2^27 (7-8 digit lengths are within every stated bound) on every lane, next to ordinary notes with
    the same low bits: arithmetic that packs lane lengths into fixed-width fields is exact for ordinary lengths and silently not here"""
    res = rng.choice([192, 480])
    groups, t = [], 0
    for k in range(15, 28):
        for d in (-1, 0, 1):
            v = 2 ** k + d
            lane = (k + d) % 5
            groups.append({"tick": t, "lanes": {str(lane): v}, "open": None, "forced": False, "tap": False})
            t += res
            groups.append({"tick": t, "lanes": {str(lane): max(0, d), str((lane + 1) % 5): 0}, "open": None, "forced": False, "tap": False})
            t += res
            if d == 0:
                groups.append({"tick": t, "lanes": {str(lane): 3 * 2 ** (k - 1), str((lane + 2) % 5): 2 ** k}, "open": None, "forced": False, "tap": False})
                t += res
    truth = {"resolution": res, "tempos": [[0, usable_n(10**9)]], "timesigs": [[0, 4, None]], "tracks": {"GUITAR/EXPERT": {"groups": groups}}}
    case = render_truth(truth)
    case["horizon"] = t + 2 ** 28
    case["profile"] = "power_of_two_sustains"
    return case
