"""Canonical JSON-able observation of a parsed Chart, built from public attributes only."""
from __future__ import annotations

import enum
import json
from datetime import timedelta

from vmon.model import ALL_FIELDS

_US = timedelta(microseconds=1)


def us(td) -> int:
    """exact integer microseconds of a timedelta"""
    return (td.days * 86400 + td.seconds) * 10**6 + td.microseconds


def _sustain(s):
    return list(s) if isinstance(s, tuple) else s


def observe_metadata(md) -> dict:
    out = {}
    for f in ALL_FIELDS:
        v = getattr(md, f)
        if f == "player2":
            # "an enum member": any Enum instance (a str-mixin enum included) shows its value; a bare string or number is not a member
            if isinstance(v, enum.Enum):
                v = v.value
            elif v is not None:
                v = f"<{type(v).__name__}, not an enum member> {v!r}"
        elif isinstance(v, enum.Enum):
            # text and number fields carry the text / number itself: an enum member that merely compares equal to the text renders
            # and hashes as something else
            v = f"<enum member {v!r} where the field's own text or number belongs>"
        out[f] = v
    return out


def observe_note(n) -> dict:
    spd = n.star_power_data
    return {
        "tick": n.tick, "ts": us(n.timestamp), "lanes": list(n.note.value), "sustain": _sustain(n.sustain),
        "longest": n.longest_sustain, "end_tick": n.end_tick, "end_ts": us(n.end_timestamp),
        "hopo": n.hopo_state.name, "sp": None if spd is None else spd.star_power_event_index,
    }


def observe_track(tr) -> dict:
    # stored sequences first, derived properties afterwards: a derived property that mutates the track
    # must not be able to hide its effect from the observation that triggers it
    notes = [observe_note(n) for n in tr.note_events]
    sp = [[e.tick, us(e.timestamp), e.sustain] for e in tr.star_power_events]
    te = [[e.tick, us(e.timestamp), e.value] for e in tr.track_events]
    le = tr.last_note_end_timestamp
    return {
        "instrument": tr.instrument.name, "difficulty": tr.difficulty.name, "header_tag": tr.header_tag,
        "last_end": None if le is None else us(le),
        "notes": notes, "sp": sp, "te": te,
    }


def raw(chart) -> str:
    """Digest of STORED fields only (no derived/cached property is read): used to detect that reading derived
    attributes — which every full observation does — itself changed the chart."""
    tracks = {}
    for inst in sorted(chart.instrument_tracks, key=lambda i: i.name):
        inner = chart.instrument_tracks[inst]
        for diff in sorted(inner, key=lambda d: d.name):
            tr = inner[diff]
            tracks[f"{inst.name}/{diff.name}"] = {
                "labels": [tr.instrument.name, tr.difficulty.name],
                "notes": [[n.tick, us(n.timestamp), list(n.note.value), _sustain(n.sustain), us(n.end_timestamp), n.hopo_state.name,
                           None if n.star_power_data is None else n.star_power_data.star_power_event_index] for n in tr.note_events],
                "sp": [[e.tick, us(e.timestamp), e.sustain] for e in tr.star_power_events],
                "te": [[e.tick, us(e.timestamp), e.value] for e in tr.track_events],
            }
    return json.dumps({"metadata": observe_metadata(chart.metadata), "sync": observe_sync(chart.sync_track),
                       "global": observe_global(chart.global_events_track),
                       "keys": {i.name: sorted(d.name for d in m) for i, m in chart.instrument_tracks.items()}, "tracks": tracks},
                      sort_keys=True, default=str)


def observe_sync(st) -> dict:
    be = st.bpm_events
    return {
        "resolution": be.resolution,
        "len": len(be),
        "bpm": [[e.tick, us(e.timestamp), e.bpm] for e in be],
        "ts": [[e.tick, us(e.timestamp), e.upper_numeral, e.lower_numeral] for e in st.time_signature_events],
        "anchors": [[e.tick, us(e.timestamp)] for e in st.anchor_events],
    }


def observe_global(g) -> dict:
    return {
        "text": [[e.tick, us(e.timestamp), e.value] for e in g.text_events],
        "section": [[e.tick, us(e.timestamp), e.value] for e in g.section_events],
        "lyric": [[e.tick, us(e.timestamp), e.value] for e in g.lyric_events],
    }


def observe(chart) -> dict:
    tracks = {}
    keys = {}
    # key structure of the instrument map, including instruments whose inner map is empty
    for inst in sorted(chart.instrument_tracks, key=lambda i: i.name):
        inner = chart.instrument_tracks[inst]
        keys[inst.name] = sorted(d.name for d in inner)
        for diff in sorted(inner, key=lambda d: d.name):
            tracks[f"{inst.name}/{diff.name}"] = observe_track(inner[diff])
    return {
        "metadata": observe_metadata(chart.metadata),
        "sync": observe_sync(chart.sync_track),
        "global": observe_global(chart.global_events_track),
        "keys": keys,
        "tracks": tracks,
    }


def digest(obs: dict) -> str:
    return json.dumps(obs, sort_keys=True, ensure_ascii=True, default=str)
