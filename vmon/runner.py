"""Runs one property's check: shards in subprocesses, aggregation, known findings, evidence, verdict.

  python -m vmon.runner <ID> quick|thorough
  python -m vmon.runner <ID> --replay <path>
  python -m vmon.runner --child <ID> <tier> <seed> <shard-json-file> <out-json-file>   (internal)

Exit status: 0 held on everything explored, 1 violated (VIOLATION lines), 2 inconclusive.
"""
from __future__ import annotations

import concurrent.futures
import importlib
import json
import os
import shutil
import subprocess
import sys
import tempfile
import time
import traceback

from vmon import env
from vmon.result import Rec, h

KNOWN = os.path.join(env.VERIF, "known_findings.txt")
OUT = os.environ.get("VMON_OUT", env.VERIF)  # evidence/ and replays/ go here (self-tests redirect it)
WORKERS = int(os.environ.get("VMON_WORKERS", "16"))


def load_prop(pid: str):
    return importlib.import_module(f"vmon.props.{pid.lower()}")


# ------------------------------------------------------------------------------------------ child
def child_main(argv: list[str]) -> int:
    pid, tier, seed, shard_file, out_file = argv
    seed = int(seed)
    with open(shard_file) as f:
        shard = json.load(f)
    rec = Rec(pid)
    t0 = time.time()
    rec.cls("interpreter:" + shard.get("config", "default"))
    rec.cls("package_loggers_enabled_for:" + os.environ.get("VMON_LOGLEVEL", "DEBUG"))
    if os.environ.get("VMON_QUIET_START"):
        rec.cls("process_started_with_a_quiet_bulk_parse")
    if os.environ.get("VMON_WORN_START"):
        rec.cls("process_with_a_past:hundreds_of_charts_and_reports_before_the_workload")
    ambient = set(filter(None, os.environ.get("VMON_AMBIENT", "").split(",")))
    if "decimal" in ambient:
        import decimal

        decimal.getcontext().prec = 6
        decimal.getcontext().rounding = decimal.ROUND_DOWN
        decimal.setcontext(decimal.getcontext())
    if "tracer" in ambient:
        # a debugger / coverage tool / profiler is attached: sys.gettrace() is not None for the whole shard (the trace function
        # declines local tracing, so only call events are delivered)
        import threading

        def _noop_trace(frame, event, arg):
            return None

        threading.settrace(_noop_trace)
        sys.settrace(_noop_trace)
    env_seen = install_env_probe()
    try:
        prop = load_prop(pid)
        if shard.get("__replay__"):
            prop.replay(shard["case"], rec)
        else:
            prop.run_shard(shard, rec, tier, seed)
    except BaseException as e:  # the harness broke, not chartparse: inconclusive, never a violation
        rec.inconc(f"harness error in shard {shard.get('name')}: {type(e).__name__}: {e}")
        rec.diag(traceback.format_exc()[-3000:])
    rec.mon("os.environ_probe_installed")
    for name in sorted(env_seen):
        rec.into("environment_variables_read_by_chartparse", name)
        rec.mon("os.environ_lookups_from_chartparse_code")
    out = rec.dump()
    if shard.get("config"):  # a clone repeats a slice of an enumeration: its cases are not new ones
        out["disjoint"] = 0
    out["wall_s"] = time.time() - t0
    out["shard"] = shard.get("name")
    with open(out_file, "w") as f:
        json.dump(out, f)
    return 0


def install_env_probe() -> set:
    """Which environment variables does the code under observation consult? os.environ lookups (os.environ[k], .get, `in`, os.getenv)
    all end in os._Environ.__getitem__; the probe notes the key when one of the nearest calling frames is chartparse code. The
    runner then repeats one shard of every kind with each variable it has learnt about set to "1" (an opt-in switch is a
    configuration like any other: whatever it switches on must still satisfy the properties)."""
    seen: set = set()
    try:
        prefix = os.path.join(env.REPO, "chartparse") + os.sep
        cls = type(os.environ)
        orig = cls.__getitem__

        def probe(self, key):
            try:
                f, depth = sys._getframe(1), 0
                while f is not None and depth < 6:
                    if f.f_code.co_filename.startswith(prefix):
                        if isinstance(key, str):
                            seen.add(key)
                        break
                    f, depth = f.f_back, depth + 1
            except Exception:  # noqa
                pass
            return orig(self, key)

        cls.__getitem__ = probe
    except Exception:  # noqa
        pass
    return seen


# ----------------------------------------------------------------------------------------- parent
# Interpreter configurations (DESIGN §12, round 8): "for every input" does not stop at the interpreter's defaults. A few shards
# of every check are run a second time under `python -O` (asserts and `if __debug__:` blocks vanish), under `python -OO`
# (docstrings vanish too) and under an ASCII locale without UTF-8 mode (the default text encoding of `open()` is ASCII).
# The clones run the same workload with the same oracles; which shards are cloned rotates with the seed.
CONFIGS = [
    ("-O", {"pyflags": ["-O"]}),
    ("ascii-locale", {"env": {"LC_ALL": "C", "LANG": "C", "PYTHONUTF8": "0", "PYTHONCOERCECLOCALE": "0"}}),
    ("-OO", {"pyflags": ["-OO"]}),
    # warnings promoted to errors (`python -W error`, pytest's filterwarnings=error): applied by harness.parse around the
    # library's main entry point only, see harness.werror
    ("-W error", {"env": {"VMON_WERROR": "1"}}),
    # the application's ambient numeric state: a thread-wide decimal context with 6 digits and ROUND_DOWN (set in child_main)
    ("decimal-context-lowered", {"env": {"VMON_AMBIENT": "decimal"}}),
    # Python Development Mode: eager validation of codec error-handler names in open(), debug allocators, default warning filter
    ("-X dev", {"pyflags": ["-X", "dev"]}),
    # a trace function is installed for the whole shard (debugger, coverage, profiler): sys.gettrace() is not None
    ("tracer-active", {"env": {"VMON_AMBIENT": "tracer"}}),
    # `python -bb`: comparing bytes with str is an error (BytesWarning raised) instead of silently False
    ("-bb", {"pyflags": ["-bb"]}),
]
NOT_A_SWITCH = ("VMON_", "PYTHON", "PATH", "HOME", "LANG", "LC_", "TMP", "TEMP", "USER", "PWD", "SHELL", "TERM", "CHARTPARSE_VERIF")


def config_variants(pid: str, shards: list[dict], seed: int, tier: str) -> list[dict]:
    """one shard of every shard KIND (name without its running number) per configuration - two under -O on the thorough tier;
    -OO, which adds little over -O, gets one shard per check. Which shard of a kind is taken rotates with the seed."""
    import re

    prop = load_prop(pid)
    if getattr(prop, "OWN_CONFIGS", False) or not shards:  # C20 starts its own interpreters and rotates the options itself
        return []
    kinds: dict[str, list[dict]] = {}
    only = getattr(prop, "CLONE_KINDS", None)  # a check may name the shard kinds worth repeating (C17: its long histories)
    for s in shards:
        kd = re.sub(r"[-_]?\d+$", "", str(s.get("name")))
        if only is None or kd in only:
            kinds.setdefault(kd, []).append(s)
    if not kinds:
        return []
    out = []
    for k, (name, cfg) in enumerate(CONFIGS):
        chosen = []
        for kind, members in sorted(kinds.items()):
            per = 2 if (name == "-O" and tier == "thorough") else 1
            for j in range(min(per, len(members))):
                chosen.append(members[(seed * 7 + k * 5 + j * 3 + int(pid[1:])) % len(members)])
        if name == "-OO":
            chosen = chosen[(seed + int(pid[1:])) % len(chosen):][:1]
        for src in chosen:
            s = dict(src)
            s["name"] = f"{src.get('name')}@{name}"
            s["config"] = name
            if "pyflags" in cfg:
                s["pyflags"] = cfg["pyflags"]
            if "env" in cfg:
                s["env"] = dict(src.get("env") or {}, **cfg["env"])
            out.append(s)
    return out


GRACE_AFTER_VIOLATION = float(os.environ.get("VMON_GRACE", "25"))


def run_children(pid: str, tier: str, seed: int, shards: list[dict], watchdog: float) -> list[dict]:
    """One subprocess per shard, WORKERS at a time. Once some shard has reported a violation (a witness exists), the
    remaining shards get a short grace period and are then stopped: their absence cannot turn 'violated' into anything else,
    and a tree that makes some workload hang must not hide a witness found elsewhere behind the watchdog."""
    import threading

    work = tempfile.mkdtemp(prefix=f"vmon-{pid}-")
    results: list = [None] * len(shards)
    lock = threading.Lock()
    state = {"violation_at": None}
    procs: dict = {}

    def one(i: int, shard: dict) -> None:
        with lock:
            if state["violation_at"] is not None and time.time() > state["violation_at"] + GRACE_AFTER_VIOLATION:
                results[i] = {"stopped": True}
                return
        sf = os.path.join(work, f"s{i}.json")
        of = os.path.join(work, f"o{i}.json")
        with open(sf, "w") as f:
            json.dump(shard, f)
        cmd = [env.PY, *shard.get("pyflags", []), "-m", "vmon.runner", "--child", pid, tier, str(seed), sf, of]
        extra = dict(shard.get("env") or {})
        errf = open(os.path.join(work, f"e{i}.txt"), "w+")
        p = subprocess.Popen(cmd, env=env.child_env(extra), cwd=env.VERIF, stdout=subprocess.DEVNULL, stderr=errf, text=True)
        with lock:
            procs[i] = p
        t0 = time.time()
        stopped = False
        while True:
            try:
                p.wait(timeout=1.0)
                break
            except subprocess.TimeoutExpired:
                now = time.time()
                with lock:
                    va = state["violation_at"]
                if va is not None and now > va + GRACE_AFTER_VIOLATION:
                    p.kill()
                    p.wait()
                    stopped = True
                    break
                if now - t0 > watchdog:
                    p.kill()
                    p.wait()
                    results[i] = {"inconclusive": [f"watchdog ({watchdog:.0f}s) fired in shard {shard.get('name')}"]}
                    return
        if stopped:
            results[i] = {"stopped": True}
            return
        errf.seek(0)
        stderr = errf.read()
        errf.close()
        if not os.path.exists(of):
            results[i] = {"inconclusive": [f"shard {shard.get('name')} died (exit {p.returncode}): {stderr[-1500:]}"]}
            return
        with open(of) as f:
            r = json.load(f)
        if stderr.strip():
            r.setdefault("diagnostics", []).append("stderr: " + stderr.strip()[-500:])
        if r.get("violations"):
            with lock:
                if state["violation_at"] is None:
                    state["violation_at"] = time.time()
        results[i] = r

    try:
        with concurrent.futures.ThreadPoolExecutor(max_workers=WORKERS) as ex:
            futs = [ex.submit(one, i, s) for i, s in enumerate(shards)]
            for f in futs:
                f.result()
    finally:
        shutil.rmtree(work, ignore_errors=True)
    out = [r for r in results if r is not None and not r.get("stopped")]
    n_stopped = sum(1 for r in results if r is not None and r.get("stopped"))
    if n_stopped:
        out.append({"diagnostics": [f"{n_stopped} shard(s) were stopped {GRACE_AFTER_VIOLATION:.0f}s after another shard reported a violation"]})
    return out


def merge(results: list[dict]) -> dict:
    agg = {"evaluations": 0, "distinct": set(), "disjoint": 0, "classes": {}, "monitor": {},
           "violations": [], "samples": [], "inconclusive": [], "diagnostics": [], "maxima": {},
           "sets": {}, "shards": len(results), "shard_wall_s": []}
    for r in results:
        agg["evaluations"] += r.get("evaluations", 0)
        agg["distinct"].update(r.get("distinct", []))
        agg["disjoint"] += r.get("disjoint", 0)
        for k, v in r.get("classes", {}).items():
            agg["classes"][k] = agg["classes"].get(k, 0) + v
        for k, v in r.get("monitor", {}).items():
            agg["monitor"][k] = agg["monitor"].get(k, 0) + v
        for k, v in r.get("maxima", {}).items():
            agg["maxima"][k] = max(agg["maxima"].get(k, float("-inf")), v)
        for k, v in r.get("sets", {}).items():
            agg["sets"].setdefault(k, set()).update(map(_hashable, v))
        agg["violations"].extend(r.get("violations", []))
        if len(agg["samples"]) < 6:
            agg["samples"].extend(r.get("samples", [])[:2])
        for x in r.get("inconclusive", []):
            if x not in agg["inconclusive"]:
                agg["inconclusive"].append(x)
        agg["diagnostics"].extend(r.get("diagnostics", []))
        if "wall_s" in r:
            agg["shard_wall_s"].append(round(r["wall_s"], 2))
    return agg


def _hashable(x):
    return tuple(x) if isinstance(x, list) else x


def load_known() -> tuple[list[dict], list[dict]]:
    open_, fixed = [], []
    if os.path.exists(KNOWN):
        for line in open(KNOWN, encoding="utf-8"):
            line = line.strip()
            if not line or line.startswith("#"):
                continue
            if line.startswith("open:"):
                parts = line[5:].split()
                d = {"line": line, "what": ""}
                rest = []
                for p in parts:
                    if p.startswith("property=") and "property" not in d:
                        d["property"] = p[9:]
                    elif p.startswith("mechanism=") and "mechanism" not in d:
                        d["mechanism"] = p[10:]
                    else:
                        rest.append(p)
                d["what"] = " ".join(rest)
                if "property" in d and "mechanism" in d:
                    open_.append(d)
            elif line.startswith("fixed:"):
                fixed.append({"line": line})
    return open_, fixed


def write_replay(pid: str, v: dict, tier: str, seed: int) -> str:
    d = os.path.join(OUT, "replays", pid)
    os.makedirs(d, exist_ok=True)
    path = os.path.join(d, h(v["case"]) + ".json")
    with open(path, "w") as f:
        json.dump({"property": pid, "seed": seed, "tier": tier, "kind": v["kind"],
                   "mechanism": v["mechanism"], "message": v["message"], "case": v["case"]}, f, indent=1,
                  default=str)
    return path


def main(argv: list[str]) -> int:
    if argv and argv[0] == "--child":
        return child_main(argv[1:])
    if len(argv) < 2:
        print(__doc__)
        return 2
    pid = argv[0].upper()
    prop = load_prop(pid)
    seed = env.seed()
    t0 = time.time()

    if argv[1] == "--replay":
        path = argv[2]
        with open(path) as f:
            rp = json.load(f)
        res = run_children(pid, rp.get("tier", "quick"), rp.get("seed", 0),
                           [{"name": "replay", "__replay__": True, "case": rp["case"]}], 3600)
        agg = merge(res)
        for x in agg["inconclusive"]:
            print(f"INCONCLUSIVE property={pid} reason={x}")
        if agg["violations"]:
            for v in agg["violations"]:
                print(f"  {v['kind']}: {v['message'][:400]}")
            print(f"VIOLATION property={pid} replay={path}")
            return 1
        if agg["inconclusive"]:
            return 2
        print(f"replay of {path}: the case no longer violates {pid}")
        return 0

    tier = argv[1]
    if tier not in ("quick", "thorough"):
        print(f"unknown tier {tier}")
        return 2
    os.environ["VERIF_TIER"] = tier
    shards = prop.shards(tier, seed)
    for k, sh in enumerate(shards):  # log level as a workload dimension (env.import_chartparse)
        e = dict(sh.get("env") or {})
        e.setdefault("VMON_LOGLEVEL", "WARNING" if (k + seed) % 2 else "DEBUG")
        if (k + seed) % 4 == 1:  # every fourth process begins with a quiet bulk import (harness.quiet_start)
            e.setdefault("VMON_QUIET_START", "1")
        if (k + seed) % 3 == 2:  # every third process has a past: hundreds of charts read, hundreds of reports made (harness.worn_start)
            e.setdefault("VMON_WORN_START", "1")
        sh["env"] = e
    shards = shards + config_variants(pid, shards, seed, tier)
    watchdog = getattr(prop, "WATCHDOG", {"quick": 900, "thorough": 5400})[tier]
    results = run_children(pid, tier, seed, shards, watchdog)
    # environment switches the code under observation was SEEN to consult (install_env_probe): one shard of every kind is run again
    # with all of them set to "1", and with each alone when there are several
    names = sorted({n for r in results for n in r.get("sets", {}).get("environment_variables_read_by_chartparse", [])
                    if isinstance(n, str) and not n.startswith(NOT_A_SWITCH)})
    if names and not getattr(prop, "OWN_CONFIGS", False) and not any(r.get("violations") for r in results):
        base = [s for s in shards if not s.get("config")]
        combos = [names] + ([[n] for n in names[:4]] if len(names) > 1 else [])
        extra = []
        for combo in combos:
            label = "env:" + "+".join(combo)
            CONFIGS.append((label, {"env": {n: "1" for n in combo}}))
            extra += [s for s in config_variants(pid, base, seed, tier) if s.get("config") == label]
        results += run_children(pid, tier, seed, extra, watchdog)
    agg = merge(results)

    # gates: a check that observed nothing, or never reached a required class, is inconclusive
    if agg["evaluations"] == 0:
        agg["inconclusive"].append("the deciding oracle made zero evaluations")
    extra = prop.finalize(agg, tier) if hasattr(prop, "finalize") else {}
    required = prop.required(tier) if hasattr(prop, "required") else []
    for c in required:
        if agg["classes"].get(c, 0) == 0 and agg["monitor"].get(c, 0) == 0:
            agg["inconclusive"].append(f"required class never observed: {c}")

    # violations vs known findings (matched by mechanism only; the file is never written here)
    open_known, fixed_known = load_known()
    new, matched = [], {}
    for v in agg["violations"]:
        k = next((k for k in open_known if k["property"] == pid and k["mechanism"] == v["mechanism"]), None)
        if k is not None:
            matched.setdefault(k["mechanism"], [k, 0])[1] += 1
        else:
            new.append(v)
    for mech, (k, n) in matched.items():
        print(f"KNOWN-FINDING: property={pid} {k['what']} (mechanism={mech}, seen {n}x in this run)")

    n_distinct = len(agg["distinct"]) + agg["disjoint"]
    wall = time.time() - t0
    coverage = {
        "evaluations": agg["evaluations"],
        "distinct_nontrivial": n_distinct,
        "rule": prop.RULE,
        "samples": agg["samples"][:6] or ["<no case was executed>"],
        "classes_observed": dict(sorted(agg["classes"].items())),
        "required_classes": required,
        "monitor_events": dict(sorted(agg["monitor"].items())),
        "maxima": agg["maxima"],
        "sets": {k: sorted(v, key=str)[:60] for k, v in agg["sets"].items()},
        "set_sizes": {k: len(v) for k, v in agg["sets"].items()},
        "shards": agg["shards"],
        "shard_wall_s": agg["shard_wall_s"],
        "verdict": "violated" if new else ("inconclusive" if agg["inconclusive"] else "held"),
        "inconclusive_reasons": agg["inconclusive"],
        "known_findings_matched": sorted(matched),
        "diagnostics": agg["diagnostics"][:20],
        "repo": env.REPO,
    }
    if getattr(prop, "exhaustive", None):
        coverage["exhaustive"] = bool(prop.exhaustive(tier))
    coverage.update(extra or {})
    evidence = {
        "property_id": pid, "tier": tier, "seed": seed, "level": prop.LEVEL, "coverage": coverage,
        "assumptions": list(getattr(prop, "ASSUMPTIONS", [])), "wall_s": round(wall, 2),
        "violations": len(new),
    }
    os.makedirs(os.path.join(OUT, "evidence"), exist_ok=True)
    with open(os.path.join(OUT, "evidence", f"{pid}.json"), "w") as f:
        json.dump(evidence, f, indent=1, default=str, sort_keys=False)

    print(f"{pid} {tier} seed={seed}: evaluations={agg['evaluations']} distinct_nontrivial={n_distinct} "
          f"shards={agg['shards']} wall={wall:.1f}s verdict={coverage['verdict']}")
    if new:
        seen = set()
        for v in new:
            if len(seen) >= 10:
                print(f"  ... {len(new)} violating cases recorded in this run; the first {len(seen)} distinct ones are listed")
                break
            path = write_replay(pid, v, tier, seed)
            if path in seen:
                continue
            seen.add(path)
            print(f"  {v['kind']}: {v['message'][:600]}")
            print(f"VIOLATION property={pid} replay={path}")
        return 1
    if agg["inconclusive"]:
        for x in agg["inconclusive"]:
            print(f"INCONCLUSIVE property={pid} reason={x}")
        return 2
    return 0


if __name__ == "__main__":
    try:
        rc = main(sys.argv[1:])
    except BaseException as e:  # noqa - a crash of the machinery itself is never a verdict about chartparse (exit status 1 means "violated")
        if isinstance(e, SystemExit):
            raise
        traceback.print_exc()
        print(f"INCONCLUSIVE property={sys.argv[1] if len(sys.argv) > 1 else '?'} reason=the check itself crashed: {type(e).__name__}: {e}")
        rc = 2
    sys.exit(rc)
