"""What every shard does first: import the tree under test, install monitors, provide parse helpers."""
from __future__ import annotations

import io
import os
import random
import threading
import warnings

from vmon import contracts, env, gen, observe

cp = None  # the chartparse package (after setup)
Chart = None
Instrument = None
Difficulty = None
ALLOWED_ERRORS: tuple = ()
_tempo_cache: dict[int, bool] = {}


def setup(with_contracts: bool = True, advisory: bool = True, prescreen_tempo: bool = True):
    global cp, Chart, Instrument, Difficulty, ALLOWED_ERRORS
    cp = env.import_chartparse()
    import chartparse.chart
    import chartparse.exceptions
    import chartparse.instrument

    Chart = chartparse.chart.Chart
    Instrument = chartparse.instrument.Instrument
    Difficulty = chartparse.instrument.Difficulty
    ALLOWED_ERRORS = (ValueError, chartparse.exceptions.RegexNotMatchError, chartparse.exceptions.MissingRequiredField)
    if with_contracts:
        contracts.install(advisory=advisory)
    gen.tempo_ok = tempo_ok if prescreen_tempo else None
    if os.environ.get("VMON_QUIET_START"):
        quiet_start()
    if os.environ.get("VMON_WORN_START"):
        worn_start()
    return cp


def tempo_ok(n: int) -> bool:
    """Does the tree under test accept 'B n' in isolation (public single-line route)? C08 decides
    whether it should; every other check only avoids values the tree refuses (DESIGN C01 'Care')."""
    r = _tempo_cache.get(n)
    if r is None:
        import chartparse.sync as s

        try:
            d = s.BPMEvent.ParsedData.from_chart_line(f"0 = B {n}")
            s.BPMEvent.from_parsed_data(d, None, 192)
            r = True
        except Exception:
            r = False
        _tempo_cache[n] = r
    return r


class Outcome:
    __slots__ = ("chart", "exc", "logs")

    def __init__(self, chart, exc, logs):
        self.chart = chart
        self.exc = exc
        self.logs = logs

    @property
    def ok(self) -> bool:
        return self.exc is None


def pairs(sel):
    """[("GUITAR","EXPERT"), ...] -> [(Instrument.GUITAR, Difficulty.EXPERT), ...]"""
    if sel is None:
        return None
    return [(Instrument[i], Difficulty[d]) for i, d in sel]


_FOLDER = None


def song_folder() -> str:
    """A run-private directory laid out like a Clone Hero / Guitar Hero song folder: song.ini with the usual keys (among them
    name/artist/charter, delay, hopo_frequency, eighthnote_hopo, multiplier_note, diff_*), an album picture, audio stems, a second
    chart. Charts read by path are written here as notes.chart. Removed at exit."""
    global _FOLDER
    if _FOLDER is None:
        import atexit
        import shutil
        import tempfile

        _FOLDER = tempfile.mkdtemp(prefix="vmon-song-")
        atexit.register(shutil.rmtree, _FOLDER, True)
        add_siblings(_FOLDER)
    return _FOLDER


def add_siblings(folder: str) -> None:
    """fills a directory with what sits next to a chart in a song folder (see song_folder)"""
    _FOLDER = folder
    if True:
        ini = ("[song]\nname = Folder Song\nartist = Folder Artist\nalbum = Folder Album\ngenre = Folder Genre\nyear = 1999\ncharter = Folder Charter\n"
               "song_length = 215000\ndelay = 120\noffset = 120\npreview_start_time = 55000\nhopo_frequency = 170\neighthnote_hopo = 1\nhopofreq = 2\n"
               "multiplier_note = 116\nstar_power_note = 116\nsustain_cutoff_threshold = 96\nfive_lane_drums = 1\npro_drums = True\n"
               "diff_guitar = 4\ndiff_bass = 3\ndiff_drums = 5\ndiff_keys = -1\nicon = x\nloading_phrase = Have fun\nmodchart = 0\n"
               "end_events = 0\nvideo_start_time = -500\nresolution = 480\nplayer2 = rhythm\n")
        for fn in ("song.ini", "Song.ini"):
            with open(os.path.join(_FOLDER, fn), "w", encoding="utf-8") as f:
                f.write(ini if fn == "song.ini" else ini.replace("[song]", "[Song]"))
        for fn, data in (("album.png", b"\x89PNG\r\n\x1a\n"), ("song.ogg", b"OggS"), ("guitar.ogg", b"OggS"), ("notes.mid", b"MThd"),
                         ("notes.eof", b""), ("README.txt", b"hi")):
            with open(os.path.join(_FOLDER, fn), "wb") as f:
                f.write(data)
        with open(os.path.join(_FOLDER, "notes.bak.chart"), "w") as f:
            f.write("[Song]\n{\n  Resolution = 480\n  Name = \"Backup\"\n}\n[SyncTrack]\n{\n  0 = TS 3\n  0 = B 99000\n}\n[Events]\n{\n}\n")


class _ReadOnly:
    """the least a caller's file object can be: read() and nothing else"""

    def __init__(self, text):
        self._t = text

    def read(self, *a):
        t, self._t = self._t, ""
        return t


class werror:
    """`with werror():` — inside shards of the "-W error" configuration, Python warnings are errors while the library's main entry
    point runs (as under `python -W error` or pytest's filterwarnings=error): a warning raised while a chart is being read then
    aborts the read, and the oracles see that like any other failed parse. Not applied from worker threads (the warnings filter
    list is process-wide) and only around Chart.from_file / from_filepath called in their plainest documented forms, so that a
    deliberate deprecation of some other API or call form can never be mistaken for a defect."""
    ON = bool(os.environ.get("VMON_WERROR"))

    def __enter__(self):
        self.cm = None
        if werror.ON and threading.current_thread() is threading.main_thread():
            self.cm = warnings.catch_warnings()
            self.cm.__enter__()
            warnings.simplefilter("error")
        return self

    def __exit__(self, *a):
        if self.cm is not None:
            self.cm.__exit__(*a)
        return False


class quiet:
    """`with quiet(k):` — the application has silenced the library's reports while this runs: logging.disable(WARNING) (k even) or
    the package logger's level raised to ERROR (k odd). What is parsed must not depend on it, and nothing may break."""

    def __init__(self, k: int = 0):
        self.k = k

    def __enter__(self):
        import logging

        self.lg = logging.getLogger("chartparse")
        self.old = self.lg.level
        if self.k % 2:
            self.lg.setLevel(logging.ERROR)
        else:
            logging.disable(logging.WARNING)
        return self

    def __exit__(self, *a):
        import logging

        if self.k % 2:
            self.lg.setLevel(self.old)
        else:
            logging.disable(logging.NOTSET)
        return False


QUIET_START_TEXT = """[Song]
{
  Resolution = 192
  this line is not metadata
}
[SyncTrack]
{
  0 = TS 4
  0 = B 120000
  bulk import, sync garbage
}
[Events]
{
  0 = E "section a"
  bulk import, events garbage
}
[Bogus]
{
  0 = N 0 0
}
[ExpertSingle]
{
  0 = N 0 0
  bulk import, track garbage
  96 = N 9 0
}
"""


def quiet_start(rec=None) -> None:
    """a process that begins with a quiet bulk import: the first unparsable lines and the first unhandled section this process
    ever meets are met while the library's reports are silenced; reporting is switched back on afterwards"""
    for k in (0, 1):
        with quiet(k):
            parse(QUIET_START_TEXT)
    if rec is not None:
        rec.cls("process_started_with_a_quiet_bulk_parse")


def worn_start() -> None:
    """A long-running process is not a fresh one: before the monitored workload begins this process has read some 330 charts - note-only
    sections by the hundred (no star power, no track event, no lyric seen yet), charts with unparsable lines in every section (about
    700 reports) and with unrecognised sections (about 150 reports) - as a library inside a server or a batch converter has. Whatever
    counts calls, reports or hits per process (throttles, re-ranked recogniser orders, promoted tables, periodic maintenance) has
    long been counting when the first judged chart arrives."""
    plain = ("[Song]\n{\n  Resolution = 192\n}\n[SyncTrack]\n{\n  0 = TS 4\n  0 = B 120000\n}\n[Events]\n{\n  0 = E \"warm\"\n}\n"
             "[ExpertSingle]\n{\n  0 = N 0 0\n  96 = N 1 0\n}\n[HardSingle]\n{\n  0 = N 2 0\n}\n")
    for _ in range(140):
        parse(plain)
    for j in range(150):
        parse(QUIET_START_TEXT.replace("bulk import", f"worn start {j}"))
    lyr = plain.replace('0 = E "warm"', '0 = E "lyric la"\n  96 = E "lyric la"')
    for _ in range(40):
        parse(lyr)
    env.LOG.drain()


_EDITS = [0]


def parse(text: str, want=None, newline_passthrough: bool = True) -> Outcome:
    """Chart.from_file on a StringIO (newline='' so CR LF reach the parser as written)."""
    if len(text) % 9 == 5 and len(text) < 30000 and threading.current_thread() is threading.main_thread():
        # what an application got is the application's: before this chart is read, the application reads the same text once, filters /
        # sorts / clears / appends to the lists of THAT chart in place for its own purposes, trims the value lists the enums' helpers
        # hand out, and throws the chart away. The chart read next shows no trace of it (a returned container that is also a cache
        # entry, a shared class-level or module-level default, or a sibling's attribute would).
        try:
            junk = Chart.from_file(io.StringIO(text, newline=""))
            if edit_in_place(junk):
                _EDITS[0] += 1
            del junk
        except Exception:  # noqa
            pass
        try:  # what the probes recorded belongs to that other read, not to the one the caller is about to judge
            from vmon import probes as _probes

            _probes.drain()
        except Exception:  # noqa
            pass
    env.LOG.drain()
    fp = io.StringIO(text, newline="") if newline_passthrough else io.StringIO(text)
    _tmp = _path = None
    if newline_passthrough and len(text) % 7 in (1, 4, 5, 6):
        # "a file object": besides StringIO, a text wrapper over bytes (what open() returns), a minimal object that only has
        # read(), a stream the caller has already read a banner line from (parsing starts where the caller left the stream, as
        # json.load and csv.reader do), and an anonymous temporary file (its .name is a file descriptor number, not a path) —
        # the same characters reach the parser in all of them
        try:
            k = len(text) % 7
            raw = text.encode("utf-8")
            if k == 1:
                fp = io.TextIOWrapper(io.BytesIO(raw), encoding="utf-8", newline="")
            elif k == 4:
                fp = _ReadOnly(text)
            elif k == 5:
                banner = "# exported by a tool; the chart follows\n"
                fp = io.StringIO(banner + text, newline="")
                fp.readline()
            elif len(text) % 14 == 6 and len(text) < 60000:
                import tempfile

                _tmp = fp = tempfile.TemporaryFile("w+", encoding="utf-8", newline="")
                fp.write(text)
                fp.seek(0)
            elif len(text) < 60000 and "\r" not in text.replace("\r\n", "") and not text.startswith("\ufeff"):
                # ... and the same characters in a FILE read by path, in a song folder as players keep them: next to a song.ini,
                # an album picture, audio stems and another chart (harness.song_folder); what is in those is none of the parser's business
                _path = os.path.join(song_folder(), "notes.chart" if threading.current_thread() is threading.main_thread()
                                     else f"notes-{threading.get_ident()}.chart")
                with open(_path, "wb") as f_:
                    f_.write(raw)
        except UnicodeEncodeError:
            pass
    # (the form is a function of the input, so that a replay of a recorded case takes the same form)
    _CALLS = len(text) + (len(want) if want is not None and hasattr(want, "__len__") else 0)
    try:
        # the documented call forms rotate: the selection by keyword or positionally; "no selection" omitted or an explicit None
        if _path is not None:
            with werror():
                c = Chart.from_filepath(_path if len(text) % 4 else __import__("pathlib").Path(_path)) if want is None else \
                    Chart.from_filepath(_path, want_tracks=want)
        elif werror.ON:
            with werror():
                c = Chart.from_file(fp) if want is None else Chart.from_file(fp, want_tracks=want)
        elif want is None:
            c = Chart.from_file(fp) if _CALLS % 3 else (Chart.from_file(fp, None) if _CALLS % 2 else Chart.from_file(fp, want_tracks=None))
        else:
            c = Chart.from_file(fp, want_tracks=want) if _CALLS % 2 else Chart.from_file(fp, want)
        return Outcome(c, None, env.LOG.drain())
    except Exception as e:  # noqa: BLE001 - the outcome is data for the oracle
        return Outcome(None, e, env.LOG.drain())
    finally:
        if _tmp is not None:
            try:
                _tmp.close()
            except Exception:  # noqa
                pass


_OTHER = None
_OTHER_N = 0


def distract(rec=None) -> None:
    """An application holds several charts. Between two questions to the chart under observation, ANOTHER chart that stays alive
    for the whole shard (48 tempo changes) answers tick-to-time questions far into its map, near its start, and a failing one —
    whatever a lookup leaves behind (a resume position, a one-entry memo, a half-updated holder) must stay with its own chart."""
    global _OTHER, _OTHER_N
    if _OTHER is None:
        tempos = [[96 * k, gen.usable_n(90000 + 1500 * k)] for k in range(48)]
        truth = {"resolution": 96, "tempos": tempos, "timesigs": [[0, 4, None]],
                 "tracks": {"BASS/HARD": {"groups": [{"tick": 96 * 50, "lanes": {"1": 0}, "open": None, "forced": False, "tap": False}], "phrases": []}}}
        o = parse(gen.render_truth(truth)["text"])
        _OTHER = o.chart.sync_track.bpm_events if o.ok else False
    if not _OTHER:
        return
    _OTHER_N += 1
    try:
        k = _OTHER_N % 4
        if k == 0:
            _OTHER.timestamp_at_tick(96 * 47 + 5)
        elif k == 1:
            _OTHER.timestamp_at_tick_no_optimize_return(3)
        elif k == 2:
            _OTHER.timestamp_at_tick(96 * 30, start_iteration_index=29)
        else:
            _OTHER.timestamp_at_tick(-1)
    except ValueError:
        pass
    if rec is not None:
        rec.mon("questions_put_to_another_live_chart_in_between")


def obs(chart) -> dict:
    return observe.observe(chart)


def rng_for(seed: int, prop: str, shard, case) -> random.Random:
    return random.Random(f"{seed}/{prop}/{shard}/{case}")


def exc_str(e: BaseException) -> str:
    return f"{type(e).__name__}: {str(e)[:300]}"


def collect_contracts(rec, case_fn, props: tuple = ("C11", "C15")) -> None:
    """Moves recorded deciding-contract breaches into diagnostics (they are decided by C11/C15's own checks)."""
    for b in contracts.drain():
        rec.diag(f"contract[{b['property']}] {b['contract']}: {b['message']}")


def finish(rec) -> None:
    """Copies monitor counters into the record at the end of a shard."""
    for k, v in contracts.counts.items():
        rec.mon(f"contract:{k}", v)
    for a in contracts.advisories:
        rec.diag("advisory: " + a)
    rec.mon("log_records_seen", env.LOG.total)
    if _EDITS[0]:
        rec.mon("charts_edited_in_place_by_the_application_before_the_judged_chart_was_read", _EDITS[0])
    if gen.rerouted:
        rec.mon("tempo_values_rerouted", gen.rerouted)


class yields:
    """`with yields(p, seed) as inj:` — while this runs, a sys.monitoring LINE callback on chartparse code gives up the GIL
    (time.sleep(0)) with probability p before a statement: thread switches then land BETWEEN two chartparse statements, where CPython
    can really switch (no impossible interleaving is manufactured). inj.switches / inj.points say what was provoked."""

    def __init__(self, p: float, seed) -> None:
        from vmon.props import c17

        self.inj = c17.Injector(p, seed)

    def __enter__(self):
        try:
            self.inj.start()
        except Exception:  # noqa - no sys.monitoring (or the tool id is taken): the stage runs on the switch interval alone
            self.inj = None
        return self.inj

    def __exit__(self, *a):
        if self.inj is not None:
            try:
                self.inj.stop()
            except Exception:  # noqa
                pass
        return False


def _norm(fn):
    try:
        return repr(fn())
    except Exception as e:  # noqa
        return "raised " + type(e).__name__


def shared_use(rec, calls: list, seed, nthreads: int = 4, rounds: int = 5, plain_rounds: int = 20):
    """One parsed chart, several threads, read-only use: `calls` are zero-argument callables on ONE shared object (queries, rate
    questions, renderings, lookups). Their single-threaded answers (value, or the class of the exception) are taken first; then
    `nthreads` threads put the same questions at once, in different orders, first with thread switches provoked between chartparse
    statements (harness.yields), then many more rounds on a 1 us switch interval alone. Returns None, or a description of the first
    answer that differs from the single-threaded one. The caller decides which property that is a violation of."""
    import sys

    if not calls:
        return None
    want = [_norm(fn) for fn in calls]
    if [_norm(fn) for fn in calls] != want:
        return None  # answers that move single-threaded are some other check's business, not a matter of sharing
    bad: list = []
    reps = [rounds]

    def worker(k: int) -> None:
        n = len(calls)
        for r in range(reps[0]):
            for j in range(n):
                i = (j * (2 * k + 1) + r + k) % n
                got = _norm(calls[i])
                if got != want[i]:
                    bad.append(f"question #{i} answered {got[:160]} to one of {nthreads} threads asking at once; asked alone the answer is {want[i][:160]}")
                    return
            if bad:
                return

    old = sys.getswitchinterval()
    sys.setswitchinterval(1e-6)
    alive = False
    try:
        for injected in (True, False):
            reps[0] = rounds if injected else plain_rounds
            with yields(0.08 if injected else 0.0, seed) as inj:
                ths = [threading.Thread(target=worker, args=(k,)) for k in range(nthreads)]
                for t in ths:
                    t.start()
                for t in ths:
                    t.join(180)
            if injected and inj is not None and rec is not None:
                rec.mon("thread_switches_provoked_inside_chartparse_while_sharing_one_chart", inj.switches)
            alive = any(t.is_alive() for t in ths)
            if bad or alive:
                break
    finally:
        sys.setswitchinterval(old)
    if alive:
        if rec is not None:
            rec.inconc("shared use: threads still running after 180 s (watchdog)")
        return None
    if rec is not None:
        rec.mon("questions_put_to_one_chart_by_several_threads_at_once", nthreads * (rounds + plain_rounds) * len(calls))
    if bad:
        return bad[0]
    again = [_norm(fn) for fn in calls]
    if again != want:
        i = next(k for k in range(len(want)) if again[k] != want[k])
        return f"after {nthreads} threads had used the chart at once, question #{i} asked alone is answered {again[i][:160]}; before, {want[i][:160]}"
    return None


def wear(be, ticks=None, n: int = 640) -> None:
    """A tempo map that has been in use: n un-hinted questions (both public forms, cycling over ticks all over the map) have been
    answered before the judged ones are put. Whatever a map does differently after its 48th, 64th, 256th or 512th question, it is
    doing by then."""
    if ticks is None:
        tt = [e.tick for e in be]
        ticks = sorted(set(tt[:8] + tt[-8:] + [t + 1 for t in tt[:5]] + [tt[-1] + 1000]))
    ticks = [t for t in ticks if t >= 0] or [0]
    for r in range(n):
        t = ticks[(r * 5 + r // len(ticks)) % len(ticks)]
        try:
            if r % 2:
                be.timestamp_at_tick_no_optimize_return(t)
            else:
                be.timestamp_at_tick(t)
        except Exception:  # noqa - what these answer is judged elsewhere
            pass


class _Abort(TimeoutError):
    """raised by the timer signal inside whatever is running (a timeout / Ctrl-C of the application)"""


def interrupted(fn, rng, attempts: int = 6, rec=None) -> int:
    """Runs fn() `attempts` times, each time ABORTED at a random moment by an asynchronous exception (an interval-timer signal
    whose handler raises, as an application's timeout or a Ctrl-C does), and swallows the abort. Returns how many runs were really
    cut short. What fn was doing is lost; what it was doing it TO (a parsed chart, a tempo map) is then judged by the caller: an
    aborted read-only use is still a read-only use. Main thread only (signals are delivered there); a no-op elsewhere."""
    import signal
    import time

    if threading.current_thread() is not threading.main_thread() or not hasattr(signal, "setitimer"):
        return 0
    # no trial run first: the FIRST use is among the ones cut short (a trial run would complete whatever the first use sets up).
    # Delays start at some 15 us and double until a run completes; after that they are drawn from within that run's duration.
    dur = None
    step = 15e-6

    def handler(signum, frame):
        raise _Abort("aborted by a timer signal")

    try:
        old = signal.signal(signal.SIGALRM, handler)
    except (ValueError, OSError):
        return 0
    n = 0
    try:
        for _ in range(attempts + 14):
            if n >= attempts:
                break
            delay = rng.uniform(dur * 0.02, dur * 0.98) if dur is not None else step * rng.uniform(0.6, 1.4)
            try:
                t0 = time.perf_counter()
                signal.setitimer(signal.ITIMER_REAL, max(delay, 1e-6))
                try:
                    fn()
                finally:
                    signal.setitimer(signal.ITIMER_REAL, 0)
                if dur is None:
                    dur = max(time.perf_counter() - t0, 2e-5)  # completed before the timer fired
            except _Abort:
                n += 1
                if dur is None:
                    step *= 2
            except Exception:  # noqa - failing uses are judged elsewhere
                if dur is None:
                    dur = max(time.perf_counter() - t0, 2e-5)
    finally:
        try:
            signal.setitimer(signal.ITIMER_REAL, 0)
        except _Abort:
            pass
        signal.signal(signal.SIGALRM, old)
    if rec is not None and n:
        rec.mon("read_only_uses_aborted_by_an_asynchronous_exception", n)
    return n


def enumerate_attributes(chart) -> int:
    """what a debugger's variable pane, a serialiser or a documentation tool does to an object: every attribute of the chart, of its
    parts and of a few events is evaluated (inspect.getmembers = dir() + getattr). Looking is not touching. Returns the number of objects
    looked at; an attribute that raises is the looker's problem, not a state change."""
    import inspect

    objs = [chart, chart.metadata, chart.sync_track, chart.sync_track.bpm_events, chart.global_events_track]
    for m in chart.instrument_tracks.values():
        for tr in m.values():
            objs.append(tr)
            objs += list(tr.note_events)[:2] + list(tr.star_power_events)[:1] + list(tr.track_events)[:1]
    g = chart.global_events_track
    objs += list(g.text_events)[:1] + list(g.section_events)[:1] + list(g.lyric_events)[:1] + list(chart.sync_track.bpm_events)[:1] + \
        list(chart.sync_track.time_signature_events)[:1]
    for o in objs:
        try:
            inspect.getmembers(o)
        except Exception:  # noqa
            pass
    return len(objs)


def edit_in_place(ch) -> bool:
    """in-place edits of a returned chart's mutable containers (whatever is a list or dict; tuples and frozen things are left alone)"""
    done = False

    def wreck(x):
        nonlocal done
        try:
            if isinstance(x, list) and x:
                x.reverse()
                x.append(x[0])
                del x[1:]
                done = True
            elif isinstance(x, list):
                x.append(filler)  # an empty list is the application's to append to as well
                done = True
            elif isinstance(x, dict) and x:
                x.pop(next(iter(x)))
                done = True
        except Exception:  # noqa
            pass

    try:
        st, ge = ch.sync_track, ch.global_events_track
        filler = st.time_signature_events[0]
        for x in (getattr(st.bpm_events, "events", None), st.time_signature_events, st.anchor_events, ge.text_events, ge.section_events, ge.lyric_events):
            wreck(x)
        for m in list(ch.instrument_tracks.values()):
            for tr in list(m.values()):
                for n in list(tr.note_events)[:3]:
                    wreck(n.sustain if isinstance(n.sustain, list) else None)
                wreck(tr.note_events)
                wreck(tr.star_power_events)
                wreck(tr.track_events)
            wreck(m)
        wreck(ch.instrument_tracks)
    except Exception:  # noqa
        pass
    # ... and what the library's public helpers hand out (the value lists of its enums): the application trims them for its own menus
    try:
        import chartparse.instrument as I_
        import chartparse.tick as T_

        for en in (I_.Instrument, I_.Difficulty, I_.NoteTrackIndex, getattr(T_, "NoteDuration", None)):
            fn = getattr(en, "all_values", None)
            if fn is not None:
                got = fn()
                if isinstance(got, list) and got:
                    del got[len(got) // 2:]
    except Exception:  # noqa
        pass
    return done
