"""C17 — parsing is a pure function of the text, free of history and schedule.

Monitor: differential. Baseline = each text parsed in its own fresh interpreter; compared byte-for-byte
(canonical observation, or error type + message, plus the list of warnings) with parses of the same
text (a) at arbitrary points of a long single-process history (after other charts, after failed
parses, repeated), (b) concurrently on 2-16 threads with a tiny switch interval and sys.monitoring
LINE-event yield injection inside chartparse code, so switches land between chartparse statements.
"""
from __future__ import annotations

import hashlib
import io
import json
import os
import subprocess
import sys
import threading
import time

from vmon import env, gen, harness, model, observe

ID = "C17"
LEVEL = "exploration"
RULE = ("one case = (text, selection, point in a process history or position in a concurrent schedule); corpus = valid charts of "
        "every profile with differing resolutions and > 128 distinct sustain tuples, plus charts failing in each stage (header, "
        "missing section, metadata, sync, events, track); evaluations = outcome comparisons against the fresh-interpreter "
        "baseline (canonical observation JSON or error type+message, and the warnings emitted) + '==' between repeated parses; "
        "distinct non-trivial = distinct (predecessor text, text) pairs in histories plus distinct (thread count, yield "
        "probability, text) triples in schedules")
ASSUMPTIONS = [
    "with the GIL a race needs a switch between two statements: switches are provoked by a LINE-event callback that sleeps(0) "
    "inside chartparse code with probability p, and counted; not all schedules are enumerated",
    "no contracts are installed in this check (they would add shared monitor state)",
]
CHILD = os.path.join(env.VERIF, "vmon", "c17_child.py")
CLONE_KINDS = ("hist",)  # interpreter-configuration clones: one history shard per configuration


def required(tier):
    return ["history:after_failure", "history:repeat_same_text", "history:after_other_resolution", "threads:switches_inside_chartparse>=100",
            "threads:2", "threads:16", "baseline:valid", "baseline:failing", "selection_cases", "read_by_path_cases", "history:late_failure_then_sibling_with_other_tempi", "history:more_than_100000_skipped_lines_in_one_process",
            "history:more_than_2000_text_events_in_one_process", "history:parsed_inside_the_except_handler_of_a_failed_parse", "history:earlier_chart_asked_again_after_later_parses", "history:equal_looking_events_under_other_tempo_maps",
            "cold_start:first_parses_of_the_process_were_concurrent"]


def shards(tier, seed):
    n = 12 if tier == "quick" else 32
    out = [{"name": f"hist-{i}", "kind": "history", "texts": 10 if tier == "quick" else 24, "history": 150 if tier == "quick" else 1600,
            "thread_rounds": 2 if tier == "quick" else 12} for i in range(n)]
    # cold start: the very first parses of the process happen concurrently (lazy initialisation, first-use growth of tables)
    out += [{"name": f"cold-{i}", "kind": "cold", "texts": 6, "history": 0, "thread_rounds": 1 if tier == "quick" else 3}
            for i in range(4 if tier == "quick" else 16)]
    # volume: what a long-lived process has seen in total (hundreds of thousands of tolerated-but-ignored lines, thousands of event
    # lines of one kind) must not change how the next chart is read
    out += [{"name": f"volume-{i}", "kind": "volume", "texts": 6, "history": 60 if tier == "quick" else 400, "thread_rounds": 0,
             "drum_parses": 23 if tier == "quick" else 60} for i in range(1 if tier == "quick" else 4)]
    # capacity: a probe chart re-read after exactly k charts of k OTHER resolutions, for k around the usual sizes of bounded memo
    # tables (32, 64, 128, 256, 512): what is evicted, trimmed or reused at a table's capacity must not reach the next chart
    out += [{"name": f"capacity-{i}", "kind": "capacity", "texts": 0, "history": 0, "thread_rounds": 0, "part": i} for i in range(2 if tier == "quick" else 6)]
    return out


CAPACITIES = [31, 32, 33, 63, 64, 65, 127, 128, 129, 255, 256, 257, 511, 512, 513]


def capacity_probe(rec, shard, seed):
    """The probe chart's outcome hinges on values derived per resolution (HOPO window: note pairs exactly at and one tick beyond the
    rounded eighth-triplet), per tempo and per sustain shape. It is read first; then, for each k, k small charts with k DISTINCT other
    resolutions (tempi, sustain shapes) are read and the probe is read again: every reading must show the first reading's chart."""
    res = [192, 480, 200, 96, 500, 120][shard["part"] % 6]
    thr = model.hopo_threshold(res)
    ticks_, t = [], 0
    for j in range(10):
        ticks_.append(t)
        t += thr if j % 2 == 0 else thr + 1
    groups = [{"tick": t_, "lanes": {str(j % 5): (j * 7) % 5, str((j + 2) % 5): j % 3} if j % 3 == 2 else {str(j % 5): 0}, "open": None, "forced": False, "tap": False}
              for j, t_ in enumerate(ticks_)]
    probe = gen.render_truth({"resolution": res, "tempos": [[0, gen.usable_n(120000)], [thr, gen.usable_n(93000)]], "timesigs": [[0, 4, None]],
                              "tracks": {"GUITAR/EXPERT": {"groups": groups, "phrases": [[0, thr]]}}})["text"]
    first = outcome_of(probe)
    rec.ev()
    if not first["ok"]:
        rec.violation("history-dependence", f"the probe chart was rejected: {first}", {"kind": "capacity", "probe": probe, "k": 0}, "probe-rejected")
        return
    other = [r for r in range(7, 7 + 3 * (max(CAPACITIES) + 40), 3) if r != res]
    used = 0
    for k in CAPACITIES[shard["part"] % 2::2] if os.environ.get("VERIF_TIER") == "quick" else CAPACITIES:
        for j in range(k):
            r_ = other[(used + j) % len(other)]
            small = (f"[Song]\n{{\n  Resolution = {r_}\n}}\n[SyncTrack]\n{{\n  0 = TS 4\n  0 = B {gen.usable_n(60000 + 1000 * ((used + j) % 400))}\n}}\n[Events]\n{{\n}}\n"
                     f"[ExpertSingle]\n{{\n  0 = N 0 {j + 1}\n  0 = N 1 {j % 7}\n  {max(1, r_ // 3)} = N 2 0\n  {2 * max(1, r_ // 3) + 1} = N 3 0\n}}\n")
            harness.parse(small)
        used += k
        again = outcome_of(probe)
        rec.ev()
        d = diff(first, again)
        if d:
            rec.violation("history-dependence", f"the probe chart (resolution {res}) read again after exactly {k} charts of {k} other resolutions shows another chart than "
                          f"its first reading in this process: {d}", {"kind": "capacity", "probe": probe, "k": k, "part": shard["part"]}, "parse-depends-on-history")
            return
        rec.cls(f"probe_reread_after_{k}_other_resolutions")
    rec.mon("small_charts_read_between_probe_readings", used)


def volume_texts(rng):
    """a pro-drums chart (thousands of cymbal / accent markers N 66..68, N 34..36 that the library reports and skips) and a venue
    chart (hundreds of lighting / camera text events, no lyrics, no sections)"""
    res = 192
    body, t = [], 0
    for k in range(1500):
        lane = rng.randrange(5)
        body.append(f"  {t} = N {lane} 0")
        for m in rng.sample([66, 67, 68, 34, 35, 36, 32], 3):
            body.append(f"  {t} = N {m} 0")
        t += rng.choice([48, 96, 192])
    # (the big section first, three small ones after it: whatever builds tracks side by side finishes the small ones first)
    drums = gen.render_sections([("Song", [f"  Resolution = {res}", "  Name = \"Pro Drums\""]), ("SyncTrack", ["  0 = TS 4", "  0 = B 140000"]),
                                 ("Events", ["  0 = E \"section Intro\"", "  768 = E \"lyric Hey\""]), ("ExpertDrums", body),
                                 ("EasyDrums", body[:8]), ("ExpertSingle", ["  0 = N 0 0", "  192 = N 1 0"]), ("MediumKeyboard", ["  96 = N 2 48"])])
    cues = ["lighting (chase)", "lighting (strobe)", "lighting ()", "crowd_clap", "crowd_noclap", "do_directed_cut", "next", "prev", "bonusfx",
            "HandMap_Default", "music_start", "verse", "chorus", "half_tempo"]
    ev = [f"  {96 * k} = E \"{rng.choice(cues)}\"" for k in range(700)]
    venue = gen.render_sections([("Song", [f"  Resolution = {res}"]), ("SyncTrack", ["  0 = TS 4", "  0 = B 120000", "  9600 = B 98500"]), ("Events", ev),
                                 ("ExpertSingle", ["  0 = N 0 0", "  192 = N 1 96"])])
    return [{"text": drums, "want": None, "res": res, "kind": "valid", "volume": "drums"}, {"text": venue, "want": None, "res": res, "kind": "valid", "volume": "venue"}]


_TMP = None


_SELECTIONS: dict = {}


def outcome_of(text, want=None, path_bytes_hex=None) -> dict:
    # one list object per distinct selection, handed to every parse that uses this selection (as a client would keep its
    # own `want` variable around); the library must leave it as it found it
    sel = None
    if want is not None:
        key = (threading.get_ident(), json.dumps(want))
        sel = _SELECTIONS.get(key)
        expect = harness.pairs([tuple(p) for p in want])
        _COUNT[0] += 1
        if SCRATCH_ONLY[0] or _COUNT[0] % 4 == 0:
            # ... or ONE list the client re-fills in place for every load (clear + extend): the same object, other content each time
            sk = ("scratch", threading.get_ident())
            sel = _SELECTIONS.get(sk)
            if sel is None:
                sel = _SELECTIONS[sk] = []
            sel.clear()
            sel.extend(expect)
        elif sel is None:
            sel = _SELECTIONS[key] = list(expect)
        elif sel != expect:
            return {"ok": False, "err": ["SelectionMutated", f"the caller's want_tracks list was changed by an earlier parse: now {len(sel)} of {len(expect)} pairs"],
                    "logs": []}
    if path_bytes_hex is None:
        out = harness.parse(text, sel)
    else:
        # the same bytes read by path (BOM, non-ASCII text, or bytes that are not UTF-8 at all)
        global _TMP
        import pathlib
        import tempfile

        if _TMP is None:
            _TMP = tempfile.mkdtemp(prefix="vmon-c17-")
            harness.add_siblings(_TMP)
            import atexit
            import shutil

            atexit.register(shutil.rmtree, _TMP, True)
        p = pathlib.Path(_TMP) / f"c{threading.get_ident()}.chart"
        p.write_bytes(bytes.fromhex(path_bytes_hex))
        os.utime(p, ns=(1_600_000_000 * 10**9, 1_600_000_000 * 10**9))  # every file carries the same timestamps
        env.LOG.drain()
        try:
            c = harness.Chart.from_filepath(p) if sel is None else harness.Chart.from_filepath(p, want_tracks=sel)
            out = harness.Outcome(c, None, env.LOG.drain())
        except Exception as e:  # noqa
            out = harness.Outcome(None, e, env.LOG.drain())
    # what the library REPORTS (level WARNING and above) belongs to the outcome; DEBUG/INFO diagnostics (cache statistics,
    # timings ...) may legitimately depend on the process history
    logs = [[a, b, c] for a, b, c in out.logs if b in ("WARNING", "ERROR", "CRITICAL")]
    _LAST.chart = out.chart if out.ok else None
    if out.ok:
        return describe(out.chart, logs)
    return {"ok": False, "err": [type(out.exc).__name__, str(out.exc)], "logs": logs}


_COUNT = [0]
SCRATCH_ONLY = [False]  # in every other shard the client has ONE selection list for all its loads and re-fills it in place
_LAST = threading.local()  # the chart object behind the latest outcome of this thread (histories keep some of them alive)


def describe(ch, logs) -> dict:
    order = [(i.name, [d.name for d in m]) for i, m in ch.instrument_tracks.items()]
    rendered = hashlib.sha256((str(ch) + "\x00" + repr(ch)).encode("utf-8", "surrogatepass")).hexdigest()
    return {"ok": True, "obs": hashlib.sha256(observe.digest(harness.obs(ch)).encode()).hexdigest(), "order": order,
            "rendered": rendered, "logs": logs, "answers": answers(ch)}


def answers(ch) -> list:
    """an identical chart answers identically: a fixed set of public queries (tick-to-time in both forms, rates) put to every
    returned chart — in a long-lived process these follow the same queries put to OTHER charts"""
    out = []
    try:
        be = ch.sync_track.bpm_events
        n = len(be)
        ticks = [0, be[n // 2].tick + 1, be[n - 1].tick, be[n - 1].tick + 1000, 7]
    except Exception as e:  # noqa
        return [f"sync not readable: {type(e).__name__}"]

    def ask(label, fn):
        try:
            out.append([label, str(fn())])
        except Exception as e:  # noqa
            out.append([label, f"{type(e).__name__}: {e}"[:160]])

    for q in ticks:
        ask(f"no_optimize_return({q})", lambda: be.timestamp_at_tick_no_optimize_return(q))
        ask(f"timestamp_at_tick({q})", lambda: be.timestamp_at_tick(q))
    for inst, m in ch.instrument_tracks.items():
        for diff, tr in m.items():
            if tr.note_events:
                last = tr.note_events[-1].tick
                ask(f"nps({inst.name},{diff.name})", lambda: ch.notes_per_second(inst, diff))
                ask(f"nps({inst.name},{diff.name},0,{last + 1})", lambda: ch.notes_per_second(inst, diff, 0, last + 1))
                ask(f"nps({inst.name},{diff.name},{last},{last + 50})", lambda: ch.notes_per_second(inst, diff, last, last + 50))
                return out
    return out


def corpus(rng, n):
    texts = []
    for i in range(n):
        r = i % 6
        if r < 3:
            prof = ["realistic", "hostile", "realistic"][r]
            c = gen.gen_chart(rng, prof, n_tracks=rng.choice([1, 2, 4]), n_groups=rng.choice([5, 30, 150]), n_globals=rng.choice([0, 6]),
                              n_tempos=rng.choice([1, 4, 12]), pad=r == 1)
            want = None
            if r == 2 and c["truth"]["tracks"]:
                keys = sorted(c["truth"]["tracks"])
                want = [k.split("/") for k in rng.sample(keys, max(1, len(keys) // 2))]
            texts.append({"text": c["text"], "want": want, "res": c["truth"]["resolution"], "kind": "valid"})
        elif r == 3 and i % 12 == 9:
            # long tempo maps (>= 32 tempo events, different ticks each time): exercises any lookup structure kept per
            # tempo map; charts are dropped after each parse, so object addresses get reused across the history
            c = gen.gen_chart(rng, "realistic", n_tracks=1, n_groups=rng.choice([10, 40]), n_globals=rng.choice([4, 12]),
                              n_tempos=rng.choice([33, 48, 80]))
            texts.append({"text": c["text"], "want": None, "res": c["truth"]["resolution"], "kind": "valid", "long_map": True})
            # a sibling with the same number of tempo events at other ticks
            c2 = gen.gen_chart(rng, "realistic", n_tracks=1, n_groups=10, n_globals=6, n_tempos=len(c["truth"]["tempos"]),
                               res=c["truth"]["resolution"])
            texts.append({"text": c2["text"], "want": None, "res": c2["truth"]["resolution"], "kind": "valid", "long_map": True})
        elif r == 3:
            # > 128 distinct sustain tuples in one chart: forces evictions in the default-size memo tables
            res = rng.choice([192, 480, 100, 7])
            groups, t = [], 0
            for k in range(180):
                groups.append({"tick": t, "lanes": {"0": k + 1, "1": rng.randint(0, 5), str(2 + k % 3): k % 7}, "open": None,
                               "forced": k > 0 and k % 5 == 0, "tap": False})
                t += rng.choice([1, res // 3 or 1, res])
            truth = {"resolution": res, "tempos": [[0, gen.usable_n(120000)], [50, gen.usable_n(99000)]], "timesigs": [[0, 4, None]],
                     "tracks": {"GUITAR/EXPERT": {"groups": groups}}}
            texts.append({"text": gen.render_truth(truth)["text"], "want": None, "res": res, "kind": "valid"})
        else:
            c = gen.gen_chart(rng, "realistic", n_tracks=1, n_groups=5, n_globals=3)
            secs = [(n_, list(b)) for n_, b in c["sections"]]
            stage = rng.choice(["header", "missing", "metadata", "sync", "events", "track"])
            if stage == "header":
                text = "oops\n" + c["text"]
            elif stage == "missing":
                text = gen.render_sections([s for s in secs if s[0] != "Events"])
            elif stage == "metadata":
                text = gen.render_sections([(n_, [ln for ln in b if "Resolution" not in ln] if n_ == "Song" else b) for n_, b in secs])
            elif stage == "sync":
                text = gen.render_sections([(n_, b + ["  0 = B 5"] if n_ == "SyncTrack" else b) for n_, b in secs])
            elif stage == "events":
                text = gen.render_sections([(n_, ["  999999 = E \"late\"", "  0 = E \"x\""] if n_ == "Events" else
                                             (["  0 = TS 4", "  0 = B 120000", "  100 = B 60000"] if n_ == "SyncTrack" else b)) for n_, b in secs])
            else:
                text = gen.render_sections([(n_, ["  0 = N 5 0", "  0 = N 0 0"] if n_ not in ("Song", "SyncTrack", "Events") else b) for n_, b in secs])
            texts.append({"text": text, "want": None, "res": c["truth"]["resolution"], "kind": "failing:" + stage})
    # a pair sharing line texts across section kinds: in X the lines sit where they are unparsable (instrument lines in [Events] and
    # [SyncTrack], quoted event lines in a track), X also fails in the end; in Y the very same lines sit where they are valid
    shared_n = ["  768 = E solo", "  768 = N 2 96", "  960 = S 2 192", "  1152 = E soloend"]
    shared_g = ["  384 = E \"section Verse 1\"", "  768 = E \"lyric Hel-\""]
    sync = ["  0 = TS 4", "  0 = B 120000", "  768 = B 90000"]
    x = gen.render_sections([("Song", ["  Resolution = 192"]), ("SyncTrack", sync + shared_n[:2]), ("Events", shared_n + ["  0 = E \"x\""]),
                             ("ExpertSingle", shared_g + ["  0 = N 5 0", "  0 = N 0 0"])])
    y = gen.render_sections([("Song", ["  Resolution = 192"]), ("SyncTrack", sync), ("Events", shared_g),
                             ("ExpertSingle", ["  0 = N 0 0"] + shared_n), ("HardSingle", shared_n[1:3])])
    texts.append({"text": x, "want": None, "res": 192, "kind": "failing:track"})
    texts.append({"text": y, "want": None, "res": 192, "kind": "valid"})
    # two charts that agree on an event in everything an event SHOWS (kind, tick, time, payload) while reaching it through different
    # numbers of tempo changes: 384 ticks at 60 BPM + 384 at 120 BPM = 768 ticks at 80 BPM = 3 s exactly (and 960 / 1152 ticks agree too
    # via 80 -> 160 BPM) — whatever is kept per "equal" event across charts answers for the wrong tempo map in the other chart.
    # Each usually follows the other at once.
    ev = ["  768 = E \"section Chorus\"", "  768 = E \"lyric Yeah\"", "  768 = E \"crowd_clap\"", "  1152 = E \"section Outro\""]
    tr = ["  768 = N 2 0", "  768 = E solo", "  768 = S 2 96", "  960 = N 3 0", "  1152 = N 1 0", "  1152 = E soloend"]
    maps = [["  0 = TS 4", "  0 = B 60000", "  384 = B 120000", "  768 = TS 3", "  1152 = B 90000"],
            ["  0 = TS 4", "  0 = B 80000", "  768 = TS 3"],
            ["  0 = TS 4", "  0 = B 48000", "  192 = B 96000", "  576 = B 120000", "  768 = TS 3", "  768 = B 80000"]]
    first = len(texts)
    for k_, sy in enumerate(maps):
        texts.append({"text": gen.render_sections([("Song", ["  Resolution = 192"]), ("SyncTrack", sy), ("Events", ev), ("ExpertSingle", tr)]),
                      "want": None, "res": 192, "kind": "valid", "follow": first + (k_ + 1) % len(maps), "coinciding": True})
    # charts whose very FIRST arithmetic decision of its kind sits on a rounding boundary: a tempo change exactly half a microsecond
    # into its segment (ties), and a second note exactly the rounded eighth-triplet after the first at a resolution that is not a
    # multiple of 3 - whatever a process computes "the first time" for a (tempo, resolution) or a resolution, and looks up afterwards,
    # is computed here on a value where two formulations differ
    from vmon.props import c11 as _c11

    for res_, tempi in sorted(_c11.TIE_TEMPI.items()) + [(192, [224000])]:
        n0 = gen.usable_n(tempi[0])
        odd = [1260] if tempi == [224000] else [t for t in (1, 3, 7, 11, 25, 101, 333) if (t * 60 * 10**6 * 1000 * 2) % (n0 * res_) == 0
                                                and (t * 60 * 10**6 * 1000) % (n0 * res_) != 0][:3]
        if not odd:
            continue
        tempos = [[0, n0]] + [[t, gen.usable_n(tempi[(k + 1) % len(tempi)])] for k, t in enumerate(odd)]
        last = odd[-1]
        truth = {"resolution": res_, "tempos": tempos, "timesigs": [[0, 4, None]], "globals": [[last + 1, "section", "tie"], [last + 3, "text", "after"]],
                 "tracks": {"GUITAR/EXPERT": {"groups": [{"tick": t, "lanes": {str(k % 5): 2}, "open": None, "forced": False, "tap": False}
                                                         for k, t in enumerate(sorted(set(odd + [last + 2, last + 5, last + 9])))]}}}
        texts.append({"text": gen.render_truth(truth)["text"], "want": None, "res": res_, "kind": "valid", "first_decision_on_a_boundary": True})
    texts.append({"text": gen.power_of_two_sustain_chart(rng)["text"], "want": None, "res": 192, "kind": "valid", "power_of_two_sustains": True})
    for res_ in (200, 500, 125, 5, 191, 98):
        thr = model.hopo_threshold(res_)
        ticks_ = [0, thr, 2 * thr + 1, 3 * thr + 1, 4 * thr, 5 * thr]
        truth = {"resolution": res_, "tempos": [[0, gen.usable_n(120000)]], "timesigs": [[0, 4, None]],
                 "tracks": {"BASS/HARD": {"groups": [{"tick": t, "lanes": {str(k % 5): 0}, "open": None, "forced": False, "tap": False} for k, t in enumerate(ticks_)]}}}
        texts.append({"text": gen.render_truth(truth)["text"], "want": None, "res": res_, "kind": "valid", "first_decision_on_a_boundary": True})
    # charts that fail LATE — in the instrument stage, after tempo map, events and at least one whole track were built — each
    # followed (usually at once, same thread) by a sibling with the same ticks under other tempi: whatever the aborted parse left
    # half-done must not reach the next one
    c = gen.gen_chart(rng, "realistic", n_tracks=2, n_groups=rng.choice([6, 25]), n_globals=4, n_tempos=rng.choice([2, 4]), shuffle_sections=False)
    secs = [(n_, list(b)) for n_, b in c["sections"]]
    inst = [k for k, (n_, b) in enumerate(secs) if n_ not in ("Song", "SyncTrack", "Events")]
    if len(inst) == 2 and all(secs[k][1] for k in inst):
        def with_sync(fn):
            return [(n_, fn(b) if n_ == "SyncTrack" else b) for n_, b in secs]

        def retempo(b):
            out = []
            for ln in b:
                tk = ln.split()
                out.append(f"  {tk[0]} = B {gen.usable_n(int(tk[3]) * 3 // 2 + 1017)}" if len(tk) == 4 and tk[2] == "B" else ln)
            return out

        sibling = gen.render_sections(with_sync(retempo))
        last_tick = max(int(ln.split()[0]) for ln in secs[inst[-1]][1])
        first_tick = int(secs[inst[-1]][1][0].split()[0])
        late = {
            "forced_first_note_of_last_track": [(n_, ([f"  {first_tick} = N 0 0", f"  {first_tick} = N 5 0"] + [ln for ln in b if int(ln.split()[0]) > first_tick])
                                                 if k == inst[-1] else b) for k, (n_, b) in enumerate(secs)],
            "zero_tempo_under_last_note": with_sync(lambda b: b + [f"  {max(last_tick, max(int(x.split()[0]) for x in b) + 1)} = B 0"]),
            "line_back_at_tick_0_after_last_note": [(n_, b + ["  0 = E solo"] if k == inst[-1] else b) for k, (n_, b) in enumerate(secs)],
        }
        for name, ss in late.items():
            texts.append({"text": gen.render_sections(ss), "want": None, "res": c["truth"]["resolution"], "kind": "failing:late:" + name,
                          "follow": len(texts) + 1})
            texts.append({"text": sibling, "want": None, "res": c["truth"]["resolution"], "kind": "valid"})
    # read-by-path variants: UTF-8 with BOM, UTF-8 with non-ASCII text, and bytes that are not UTF-8 (fails the same way everywhere)
    valid = [t for t in texts if t["kind"] == "valid" and t["want"] is None]
    if valid:
        v = rng.choice(valid)
        sp = v["text"].replace("[Song]\n{\n", "[Song]\n{\n  Name = \"Caf\u00e9 \u4e16\u754c\"\n", 1) if "  Name = " not in v["text"] else v["text"]
        texts.append(dict(v, text=sp, path_bytes_hex=(b"\xef\xbb\xbf" + sp.encode("utf-8")).hex(), kind="valid"))
        texts.append(dict(v, text=sp, path_bytes_hex=sp.encode("utf-8").hex(), kind="valid"))
        texts.append(dict(v, text=sp, path_bytes_hex=sp.encode("utf-8").replace(b"[Song]", b"[Song]\r\n{\r\n  Artist = \"Mot\xf6rhead\"\r\n}\r\n[X]", 1).hex(),
                          kind="failing:not_utf8"))
    # two texts of the SAME byte length, read from the same path with the same modification time (cp -p, rsync -t, archive extraction, a
    # coarse filesystem clock): the second must be read, not remembered
    if valid:
        v2 = next((t for t in valid if " = B 1" in t["text"] and "\r" not in t["text"]), None)
        if v2 is not None:
            ta = v2["text"]
            i_ = ta.index(" = B 1")
            tb = ta[:i_ + 5] + ("2" if ta[i_ + 5] == "1" else "1") + ta[i_ + 6:]
            k0 = len(texts)
            texts.append(dict(v2, text=ta, path_bytes_hex=ta.encode("utf-8").hex(), kind="valid", follow=k0 + 1, same_stat=True))
            texts.append(dict(v2, text=tb, path_bytes_hex=tb.encode("utf-8").hex(), kind="valid", follow=k0, same_stat=True))
    # a long run of star-power phrases without notes, then notes inside the last ones: per-index structures grow on first use
    npz = rng.choice([400, 600])
    phrases = [[10 * k, 5] for k in range(npz)]
    groups = [{"tick": 10 * k + 1, "lanes": {str(k % 5): 0}, "open": None, "forced": False, "tap": False} for k in range(npz - 6, npz)]
    truth = {"resolution": 192, "tempos": [[0, gen.usable_n(120000)]], "timesigs": [[0, 4, None]],
             "tracks": {"GUITAR/EXPERT": {"groups": groups, "phrases": phrases}}}
    texts.append({"text": gen.render_truth(truth)["text"], "want": None, "res": 192, "kind": "valid"})
    return texts


FIRST_IMPORTS = ["chart", "instrument", "sync", "track", "globalevents", "metadata", "tick", "event"]  # which module a baseline imports first


def baselines(texts):
    """one fresh interpreter per text"""
    outs = []
    for k, t in enumerate(texts):
        # each fresh interpreter gets ITS OWN string-hash seed (this process runs with seed 0): "a fresh interpreter" is any
        # interpreter, so nothing observable may depend on set/dict hashing order
        p = subprocess.run([env.PY, CHILD], input=json.dumps([{"text": t["text"], "want": t["want"], "path_bytes_hex": t.get("path_bytes_hex")}]),
                           capture_output=True, text=True, timeout=300,
                           env=env.child_env({"PYTHONHASHSEED": str(1 + 7 * k), "VMON_FIRST_IMPORT": FIRST_IMPORTS[k % len(FIRST_IMPORTS)]}), cwd=env.VERIF)
        if p.returncode != 0 or not p.stdout.strip():
            raise RuntimeError(f"baseline interpreter failed: rc={p.returncode} {p.stderr[-400:]}")
        outs.append(json.loads(p.stdout.strip().splitlines()[-1])[0])
    return outs


def diff(a, b):
    if a["ok"] != b["ok"]:
        return f"fresh interpreter: {'chart' if a['ok'] else a['err']}; here: {'chart' if b['ok'] else b['err']}"
    if a["ok"] and a["obs"] != b["obs"]:
        return "the canonical observation of the returned chart differs from the fresh interpreter's"
    if a["ok"] and [list(x) for x in a["order"]] != [list(x) for x in b["order"]]:
        return f"iteration order of chart.instrument_tracks differs: fresh interpreter {a['order']}, here {b['order']}"
    if a["ok"] and a["rendered"] != b["rendered"]:
        return "str(chart) / repr(chart) differ from the fresh interpreter's"
    if not a["ok"] and a["err"] != b["err"]:
        return f"error differs: fresh {a['err']} vs here {b['err']}"
    if a["ok"] and a.get("answers") != b.get("answers"):
        da = [(x, y) for x, y in zip(a.get("answers") or [], b.get("answers") or []) if x != y][:2]
        return f"the returned chart answers public queries differently: (fresh interpreter, here) = {da}"
    if a["logs"] != b["logs"]:
        return f"warnings differ: fresh interpreter emitted {len(a['logs'])}, here {len(b['logs'])} (first fresh: {a['logs'][:1]}, first here: {b['logs'][:1]})"
    return None


# ------------------------------------------------------------------------------------------ yield injection
class Injector:
    TOOL = 3

    def __init__(self, p, seed):
        import random

        self.p = p
        self.rng = random.Random(seed)
        self.prefix = os.path.join(env.REPO, "chartparse") + os.sep
        self.last = None
        self.switches = 0
        self.points = set()
        self.lines = 0
        self.lock = threading.Lock()

    def start(self):
        m = sys.monitoring
        try:
            m.use_tool_id(self.TOOL, "vmon-c17")
        except ValueError:
            m.free_tool_id(self.TOOL)
            m.use_tool_id(self.TOOL, "vmon-c17")
        m.register_callback(self.TOOL, m.events.LINE, self.on_line)
        m.set_events(self.TOOL, m.events.LINE)
        m.restart_events()

    def stop(self):
        m = sys.monitoring
        m.set_events(self.TOOL, 0)
        m.register_callback(self.TOOL, m.events.LINE, None)
        m.free_tool_id(self.TOOL)

    def on_line(self, code, line):
        if not code.co_filename.startswith(self.prefix):
            return sys.monitoring.DISABLE
        tid = threading.get_ident()
        with self.lock:
            self.lines += 1
            if self.last is not None and self.last != tid:
                self.switches += 1
                if len(self.points) < 5000:
                    self.points.add((code.co_name, line))
            self.last = tid
            y = self.rng.random() < self.p
        if y:
            time.sleep(0)
        return None


def threaded_round(rec, texts, base, nthreads, p, seed, rounds_per_thread, first=None):
    inj = Injector(p, seed)
    results = {}
    errors = []

    def worker(k):
        import random

        r = random.Random(f"{seed}/{k}")
        try:
            for j in range(rounds_per_thread):
                i = first if (first is not None and j == 0) else r.randrange(len(texts))
                results.setdefault(k, []).append((i, outcome_of(texts[i]["text"], texts[i]["want"], texts[i].get("path_bytes_hex"))))
        except BaseException as e:  # noqa
            errors.append(f"{type(e).__name__}: {e}")

    old = sys.getswitchinterval()
    sys.setswitchinterval(1e-6)
    inj.start()
    try:
        ths = [threading.Thread(target=worker, args=(k,)) for k in range(nthreads)]
        for t in ths:
            t.start()
        for t in ths:
            t.join(600)
        hung = [t for t in ths if t.is_alive()]
    finally:
        inj.stop()
        sys.setswitchinterval(old)
    if hung:
        rec.inconc(f"{len(hung)} parser threads still running after 600 s (watchdog)")
        return
    if errors:
        rec.inconc(f"worker thread harness error: {errors[0]}")
        return
    rec.mon("thread_switches_inside_chartparse", inj.switches)
    rec.mon("chartparse_lines_executed_under_injection", inj.lines)
    for pt in list(inj.points)[:400]:
        rec.into("switch_points", f"{pt[0]}:{pt[1]}")
    rec.mx("distinct_switch_points_in_one_round", len(inj.points))
    rec.cls(f"threads:{nthreads}")
    for k, lst in results.items():
        for i, got in lst:
            rec.ev()
            d = diff(base[i], got)
            if d:
                rec.violation("schedule-dependence", f"{nthreads} threads, yield p={p}: text #{i} ({texts[i]['kind']}): {d}",
                              {"kind": "threads", "texts": [{"text": t["text"], "want": t["want"], "path_bytes_hex": t.get("path_bytes_hex")} for t in texts], "index": i, "nthreads": nthreads,
                               "p": p, "seed": seed, "rounds": rounds_per_thread}, "parse-depends-on-concurrent-parses")
                return
            rec.key(["threads", nthreads, p, texts[i]["text"][:200], i])


def history(rec, rng, texts, base, steps):
    prev = None
    last_chart = {}
    seq = []
    held: list = []  # (text index, chart, step): a few returned charts are kept alive and asked again after LATER parses
    # a directed stretch first: the texts with long tempo maps in strict rotation, every chart dropped before the next parse
    # (object addresses are reused at once; anything kept "beside" a dead object by identity answers for its successor)
    longs = [k for k, t in enumerate(texts) if t.get("long_map")]
    rotation = [longs[j % len(longs)] for j in range(36)] if len(longs) >= 2 else []
    for s in range(steps + len(rotation)):
        r = rng.random()
        if s < len(rotation):
            i = rotation[s]
            rec.cls("history:long_tempo_maps_in_rotation")
        elif prev is not None and r < 0.15:
            i = prev
        elif prev is not None and texts[prev].get("follow") is not None and r < 0.8:
            i = texts[prev]["follow"]
            rec.cls("history:equal_looking_events_under_other_tempo_maps" if texts[prev].get("coinciding") else
                    "history:same_path_same_size_same_mtime_other_content" if texts[prev].get("same_stat") else "history:late_failure_then_sibling_with_other_tempi")
        else:
            i = rng.randrange(len(texts))
        seq.append(i)
        t = texts[i]
        if prev is not None and texts[prev]["kind"].startswith("failing") and r > 0.5:
            # `try: parse(primary) except: parse(backup)`: this parse runs INSIDE the handler of the previous, failed one
            got = None
            try:
                harness.Chart.from_file(io.StringIO(texts[prev]["text"], newline=""))
            except Exception:  # noqa
                got = outcome_of(t["text"], t["want"], t.get("path_bytes_hex"))
                rec.cls("history:parsed_inside_the_except_handler_of_a_failed_parse")
            if got is None:
                got = outcome_of(t["text"], t["want"], t.get("path_bytes_hex"))
        else:
            got = outcome_of(t["text"], t["want"], t.get("path_bytes_hex"))
        rec.ev()
        d = diff(base[i], got)
        if d:
            rec.violation("history-dependence", f"parse #{s} of a single-process history (text #{i}, {t['kind']}, after text "
                          f"#{prev} {'' if prev is None else texts[prev]['kind']}): {d}",
                          {"kind": "history", "texts": [{"text": x["text"], "want": x["want"], "path_bytes_hex": x.get("path_bytes_hex")} for x in texts], "sequence": seq[-60:]},
                          "parse-depends-on-history")
            return
        # parse A, parse B (and C ...), then ask A: a chart that was returned earlier still shows and answers what a fresh
        # interpreter's chart of its text does — nothing a later parse does may reach back into it
        if held and rng.random() < 0.3:
            hi_, hch, hs = held[rng.randrange(len(held))]
            if hs < s:
                rec.ev()
                rec.cls("history:earlier_chart_asked_again_after_later_parses")
                if texts[i]["kind"].startswith("failing"):
                    rec.cls("history:earlier_chart_asked_again_after_a_failed_parse")
                try:
                    again = describe(hch, base[hi_]["logs"])
                    d = diff(base[hi_], again)
                except Exception as e:  # noqa
                    d = f"observing it raised {type(e).__name__}: {e}"
                if d:
                    rec.violation("history-dependence", f"the chart returned by parse #{hs} (text #{hi_}) was observed again after parse #{s} (text #{i}, "
                                  f"{t['kind']}): {d}",
                                  {"kind": "history", "texts": [{"text": x["text"], "want": x["want"], "path_bytes_hex": x.get("path_bytes_hex")} for x in texts],
                                   "sequence": seq[-60:], "held": [hi_, hs - (s - min(s, 59))]}, "earlier-chart-changed-by-later-parse")
                    return
        if got["ok"] and rng.random() < 0.12:
            # what an application got is the application's: it filters, sorts and clears the lists of a returned chart IN PLACE for its
            # own purposes (a chart it then throws away). No later parse - of this text or any other - may show a trace of that: a
            # returned container that is also a cache entry, a class-level default or another chart's attribute would
            junk = harness.parse(t["text"], harness.pairs([tuple(p) for p in t["want"]]) if t["want"] else None)
            if junk.ok and harness.edit_in_place(junk.chart):
                rec.cls("history:application_edited_a_returned_chart_in_place")
            del junk
        if got["ok"] and getattr(_LAST, "chart", None) is not None and rng.random() < 0.25:
            held.append((i, _LAST.chart, s))
            if len(held) > 4:
                held.pop(rng.randrange(len(held)))
        if prev is not None:
            if texts[prev]["kind"].startswith("failing"):
                rec.cls("history:after_failure")
            if prev == i:
                rec.cls("history:repeat_same_text")
            if texts[prev]["res"] != t["res"]:
                rec.cls("history:after_other_resolution")
            rec.key(["hist", prev, i, t["text"][:200]])
        # '==' between repeated parses of one text (every 7th step, valid texts)
        if got["ok"] and s % 7 == 0 and s >= len(rotation):
            a = harness.parse(t["text"], harness.pairs([tuple(p) for p in t["want"]]) if t["want"] else None).chart
            b = last_chart.get(i)
            if b is not None:
                rec.ev()
                if not (a == b and b == a):
                    rec.violation("repeat-inequality", f"two parses of text #{i} in one process are not equal (==)",
                                  {"kind": "history", "texts": [{"text": x["text"], "want": x["want"], "path_bytes_hex": x.get("path_bytes_hex")} for x in texts], "sequence": seq[-60:]},
                                  "repeated-parses-unequal")
                    return
            last_chart[i] = a
        prev = i


def cache_report(rec):
    try:
        import chartparse.instrument as I
        import chartparse.tick as T

        for name, fn in (("note_duration_to_ticks", T.note_duration_to_ticks), ("_refined_sustain_tuple", getattr(I, "_refined_sustain_tuple", None)),
                         ("Note.is_chord", I.Note.is_chord), ("NoteTrackIndex.is_5_note", I.NoteTrackIndex.is_5_note)):
            ci = getattr(fn, "cache_info", None)
            if ci:
                info = ci()
                rec.mon(f"memo:{name}:hits", info.hits)
                rec.mon(f"memo:{name}:misses", info.misses)
                if info.maxsize and info.misses > info.maxsize:
                    rec.mon(f"memo:{name}:evictions", info.misses - info.maxsize)
    except Exception as e:  # noqa
        rec.diag(f"memo tables not inspectable: {e}")


def run_shard(shard, rec, tier, seed):
    harness.setup(with_contracts=False)
    if shard.get("kind") == "capacity":
        capacity_probe(rec, shard, seed)
        cache_report(rec)
        harness.finish(rec)
        return
    rng = harness.rng_for(seed, ID, shard["name"], 0)
    SCRATCH_ONLY[0] = str(shard["name"])[-1:] in "13579"
    if SCRATCH_ONLY[0]:
        rec.cls("client_refills_one_selection_list_in_place_for_every_load")
    texts = corpus(rng, shard["texts"])
    if shard.get("kind") == "volume":
        texts += volume_texts(rng)
    base = baselines(texts)
    for t, b in zip(texts, base):
        rec.cls("baseline:valid" if b["ok"] else "baseline:failing")
        if t["want"] is not None:
            rec.cls("selection_cases")
        if t.get("path_bytes_hex"):
            rec.cls("read_by_path_cases")
    rec.mon("fresh_interpreters", len(texts))
    cold = shard.get("kind") == "cold"
    if shard.get("kind") == "volume":
        vi = {t["volume"]: k for k, t in enumerate(texts) if t.get("volume")}
        seq = [vi["venue"]] * 3 + [vi["drums"]] * shard["drum_parses"]
        ignored = 0
        for n_, k in enumerate(seq):
            got = outcome_of(texts[k]["text"], None, None)
            rec.ev()
            ignored += len(got["logs"])
            d = diff(base[k], got)
            if d:
                rec.violation("history-dependence", f"parse #{n_} of a high-volume history ({texts[k]['volume']} chart, {ignored} reported-and-skipped lines so "
                              f"far in this process): {d}", {"kind": "history", "texts": [{"text": x["text"], "want": x["want"], "path_bytes_hex": x.get("path_bytes_hex")} for x in texts],
                                                               "sequence": seq[:n_ + 1]}, "parse-depends-on-history")
                break
        rec.mon("reported_and_skipped_lines_in_one_process", ignored)
        if ignored > 100000:
            rec.cls("history:more_than_100000_skipped_lines_in_one_process")
        rec.cls("history:more_than_2000_text_events_in_one_process")
    if not cold and not rec.full:
        history(rec, rng, texts, base, shard["history"])
    if not rec.full:
        for r in range(shard["thread_rounds"]):
            nthreads = [2, 16, 4, 8][r % 4] if not cold else [4, 8, 2][r % 3]
            p = [0.02, 0.002, 0.2][r % 3]
            small = [k for k, t in enumerate(texts) if len(t["text"]) < 14000] or list(range(len(texts)))
            # cold start: every thread's first parse is the text with the longest phrase run, all at the same time
            first = len(small) - 1 if (cold and r == 0 and shard["name"][-1] in "02468") else None  # other cold shards: different first texts
            threaded_round(rec, [texts[k] for k in small], [base[k] for k in small], nthreads, p, f"{seed}/{shard['name']}/{r}",
                           2 if nthreads >= 8 else (3 if cold else 5), first=first)
            if cold and r == 0:
                rec.cls("cold_start:first_parses_of_the_process_were_concurrent")
            if rec.full:
                break
    if cold and not rec.full:
        history(rec, rng, texts, base, 40)  # and whatever the concurrent start left behind must not leak into later parses
    cache_report(rec)
    rec.sample({"corpus": [t["kind"] for t in texts], "first_text_head": texts[0]["text"][:200]})
    harness.finish(rec)


def finalize(agg, tier):
    sw = agg["monitor"].get("thread_switches_inside_chartparse", 0)
    if sw >= 100:
        agg["classes"]["threads:switches_inside_chartparse>=100"] = sw
    return {"thread_switches_inside_chartparse": sw, "distinct_switch_points": len(agg["sets"].get("switch_points", ()))}


def replay(case, rec):
    harness.setup(with_contracts=False)
    if case.get("kind") == "capacity":
        os.environ["VERIF_TIER"] = "thorough"
        capacity_probe(rec, {"part": case.get("part", 0)}, 0)
        return
    texts = [{"text": t["text"], "want": t["want"], "path_bytes_hex": t.get("path_bytes_hex"), "kind": "replay", "res": 0} for t in case["texts"]]
    base = baselines(texts)
    if case["kind"] == "history":
        kept = []
        for s, i in enumerate(case["sequence"]):
            got = outcome_of(texts[i]["text"], texts[i]["want"], texts[i].get("path_bytes_hex"))
            rec.ev()
            d = diff(base[i], got)
            if d:
                rec.violation("history-dependence", f"step {s} (text #{i}): {d}", case)
                return
            for (hi_, hch, hs) in kept[-8:]:
                rec.ev()
                try:
                    d = diff(base[hi_], describe(hch, base[hi_]["logs"]))
                except Exception as e:  # noqa
                    d = f"observing it raised {type(e).__name__}: {e}"
                if d:
                    rec.violation("history-dependence", f"the chart returned at step {hs} (text #{hi_}) observed again after step {s}: {d}", case)
                    return
            if got["ok"] and getattr(_LAST, "chart", None) is not None:
                kept.append((i, _LAST.chart, s))
    else:
        for attempt in range(5):
            threaded_round(rec, texts, base, case["nthreads"], case["p"], f"{case['seed']}/{attempt}", case["rounds"])
            if rec.violations:
                return
