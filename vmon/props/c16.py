"""C16 — notes_per_second is count-in-closed-interval over interval length.

Monitor: icontract postcondition on the REAL Chart.notes_per_second (record-only) computing the expected
value from the chart's own public observations (note start times, tick-to-time queries,
last_note_end_timestamp) as an exact Fraction; plus a driver that checks the exception behaviour and that
tick-bounded and time-bounded calls with corresponding bounds agree.
"""
from __future__ import annotations

from datetime import timedelta
from fractions import Fraction

from vmon import contracts, gen, harness, model
from vmon.observe import us

ID = "C16"
LEVEL = "exploration"
RULE = ("one case = one call chart.notes_per_second(instrument, difficulty, *bounds) on a multi-tempo chart, bounds drawn from every "
        "note tick, +-1 tick, before the first / after the last note, tick 0 as either bound, equal and reversed bounds, the same "
        "as timestamps and +-1 us, in the forms (), (tick), (tick,tick), (None,tick), (ts), (ts,ts), for present, absent and "
        "note-less tracks; evaluations = calls judged (value or exception) + tick/time agreement checks; distinct non-trivial = "
        "distinct (chart, track, bounds) calls that returned a value matching the exact quotient")
ASSUMPTIONS = [
    "expected = #{notes: S <= start time <= E} / (E - S) as a Fraction of integer microseconds, compared at relative 1e-12",
    "only overload-conformant argument forms plus (None, tick); mixed tick/timestamp forms hit an assert and are not generated",
]
ZERO = timedelta(0)


def required(tier):
    return ["bound==note_time_at_start", "bound==note_time_at_end", "interval_with_0_notes", "omitted_end_longest_sustain_not_last",
            "error:absent_instrument", "error:absent_difficulty", "error:noteless_track", "error:zero_length", "error:negative_length",
            "form:none", "form:tick", "form:tick2", "form:none_tick", "form:ts", "form:ts2", "end_tick_0", "sub_second_interval",
            "tick_and_time_forms_agree", "contract_evaluated", "note_lines_not_in_tick_order",
            "call_form:positional", "call_form:bounds_by_keyword", "call_form:all_by_keyword"]


def shards(tier, seed):
    n = 16 if tier == "quick" else 48
    return [{"name": f"nps-{i}", "count": 14 if tier == "quick" else 260} for i in range(n)]


# ------------------------------------------------------------------------------------------ contract on the real method
def expected_value(chart, instrument, difficulty, start, end):
    """None if the call must raise ValueError, else Fraction"""
    tr = chart.instrument_tracks.get(instrument, {}).get(difficulty)
    if tr is None or not tr.note_events:
        return None
    be = chart.sync_track.bpm_events
    last_end = max(us(n.end_timestamp) for n in tr.note_events)  # "the track's last note end" = the latest end among its notes
    at = {}
    for n in tr.note_events:  # the tempo-map time of a tick that carries a note is that note's time
        at.setdefault(n.tick, us(n.timestamp))
        at.setdefault(n.end_tick, us(n.end_timestamp))

    def time_of(tick):
        return at[tick] if tick in at else us(be.timestamp_at_tick_no_optimize_return(tick))

    if start is None or isinstance(start, int):
        s = 0 if start is None else time_of(start)
        e = last_end if end is None else time_of(end)
    else:
        s = us(start)
        e = last_end if end is None else us(end)
    if e - s <= 0:
        return None
    cnt = sum(1 for n in tr.note_events if s <= us(n.timestamp) <= e)
    return Fraction(cnt * 10**6, e - s)


def _post_nps(self, instrument, difficulty, start, end, result):
    contracts.counts["c16:notes_per_second_postcondition"] += 1
    try:
        exp = expected_value(self, instrument, difficulty, start, end)
        if exp is None:
            contracts.breach("C16", "notes_per_second", f"notes_per_second({instrument}, {difficulty}, {start}, {end}) returned {result!r} "
                             "although the track is absent / note-less or the interval is not of positive length")
        else:
            err = abs(Fraction(result) - exp)
            if err > exp * Fraction(1, 10**12) and err > Fraction(1, 10**15):
                contracts.breach("C16", "notes_per_second", f"notes_per_second({instrument.name}, {difficulty.name}, {start}, {end}) = "
                                 f"{result!r}, expected {float(exp)!r} (count in closed interval / seconds)")
    except Exception as e:  # noqa
        contracts.counts[f"monitor_error:{type(e).__name__}"] += 1
    return True


def install():
    if "c16" in contracts.installed:
        return
    C = harness.Chart
    C.notes_per_second = contracts._ensure(_post_nps)(C.notes_per_second)
    contracts.installed["c16"] = True


class _MyTick(int):
    """an application's own tick type"""


class _MyTime(timedelta):
    """an application's own timestamp type"""


# ------------------------------------------------------------------------------------------ driver
_FORM = 0
_DISTRACTOR = None  # (chart, instrument, difficulty, a tick beyond its last tempo change)


def make_distractor():
    """a second chart that stays alive for the whole shard: 48 tempo changes, a few notes far into the map"""
    global _DISTRACTOR
    tempos = [[96 * k, gen.usable_n(90000 + 1500 * k)] for k in range(48)]
    last = tempos[-1][0]
    groups = [{"tick": last + 96 * (k + 1), "lanes": {str(k % 5): 0}, "open": None, "forced": False, "tap": False} for k in range(6)]
    truth = {"resolution": 96, "tempos": tempos, "timesigs": [[0, 4, None]], "tracks": {"BASS/HARD": {"groups": groups, "phrases": []}}}
    out = harness.parse(gen.render_truth(truth)["text"])
    if out.ok:
        _DISTRACTOR = (out.chart, harness.Instrument.BASS, harness.Difficulty.HARD, last + 96)


def call(rec, chart, text, inst, diff, args, label, derived=None):
    global _FORM
    I, D = harness.Instrument, harness.Difficulty
    i, d = I[inst], D[diff]
    start = args[0] if len(args) > 0 else None
    end = args[1] if len(args) > 1 else None
    case = {"text": text, "instrument": inst, "difficulty": diff,
            "args": [a if a is None or isinstance(a, int) else {"us": us(a)} for a in args],
            "arg_types": [type(a).__name__ for a in args]}
    if derived is not None:
        case["derived_keep"] = derived
    rec.ev()
    contracts.drain("C16")
    # an application holds several charts: in half of the calls ANOTHER chart (long tempo map) answers a tick-bounded question far
    # into its map immediately before — and the expectation for this call is computed only AFTER it, so that no query of the
    # oracle's own comes between the two (the oracle's queries used to "warm up" the chart under test before every call)
    if _DISTRACTOR is not None and _FORM % 2:
        dch, di, dd, dt = _DISTRACTOR
        try:
            dch.notes_per_second(di, dd, dt, dt + 1000)
        except ValueError:
            pass
        rec.cls("asked_right_after_a_tick_bounded_query_on_another_chart")
    try:
        # the documented call forms rotate: positional, bounds by keyword (an omitted start is then really omitted, not None),
        # everything by keyword
        _FORM += 1
        kw = {k: v for k, v in (("start", start), ("end", end)) if v is not None}
        if _FORM % 3 == 1:
            got = chart.notes_per_second(i, d, **kw)
            rec.cls("call_form:bounds_by_keyword")
        elif _FORM % 3 == 2:
            got = chart.notes_per_second(instrument=i, difficulty=d, **kw)
            rec.cls("call_form:all_by_keyword")
        else:
            got = chart.notes_per_second(i, d, *args)
            rec.cls("call_form:positional")
        exc = None
    except Exception as e:  # noqa
        got, exc = None, e
    br = contracts.drain("C16")
    exp = expected_value(chart, i, d, start, end)
    contracts.drain("C16")
    if br:
        rec.violation("contract", br[0]["message"], case, "value!=count/length")
        return None
    if exp is None:
        if exc is None:
            rec.violation("must-raise", f"notes_per_second({inst}, {diff}, {args}) returned {got!r}; ValueError expected", case, "error-not-raised")
        elif not isinstance(exc, ValueError):
            rec.violation("wrong-error", f"notes_per_second({inst}, {diff}, {args}) raised {harness.exc_str(exc)}, ValueError expected", case,
                          "wrong-exception")
        else:
            rec.cls(label)
        return None
    if exc is not None:
        rec.violation("must-return", f"notes_per_second({inst}, {diff}, {args}) raised {harness.exc_str(exc)}; expected {float(exp)!r}", case,
                      "valid-call-raised")
        return None
    err = abs(Fraction(got) - exp)
    if err > exp * Fraction(1, 10**12) and err > Fraction(1, 10**15):
        rec.violation("value", f"notes_per_second({inst}, {diff}, {args}) = {got!r}, expected {float(exp)!r}", case, "value!=count/length")
        return None
    rec.cls(label)
    if exp == 0:
        rec.cls("interval_with_0_notes")
    rec.key([text, inst, diff, case["args"]])
    return got


def drive(rec, rng, case):
    sel = None
    if len(case["text"]) % 3 == 1 and case["truth"]["tracks"]:
        # the chart was loaded with a selection (every track of the file), held in a list the CALLER goes on using: once the load has
        # returned the caller empties the list and fills it with something else - the loaded chart is none the wiser
        sel = harness.pairs([k.split("/") for k in sorted(case["truth"]["tracks"])])
    out = harness.parse(case["text"], sel)
    if sel is not None:
        sel.clear()
        sel.append((harness.Instrument.KEYS, harness.Difficulty.EASY))
        rec.cls("callers_selection_list_edited_after_the_load")
    if not out.ok:
        rec.diag(f"chart rejected: {harness.exc_str(out.exc)}")
        return
    chart, text = out.chart, case["text"]
    be = chart.sync_track.bpm_events
    present = sorted(case["truth"]["tracks"])
    for key in present:
        inst, diff = key.split("/")
        tr = chart.instrument_tracks.get(harness.Instrument[inst], {}).get(harness.Difficulty[diff])
        if tr is None:
            # the text has this section: the rate of a track that IS in the file cannot be "absent track"
            rec.ev()
            rec.violation("must-return", f"the text has a [{model.header(inst, diff)}] section with {len(case['truth']['tracks'][key]['groups'])} notes but the parsed "
                          f"chart has no such track: notes_per_second({inst}, {diff}) can only raise", {"text": text, "instrument": inst, "difficulty": diff, "args": []},
                          "track-in-text-absent-from-chart")
            continue
        notes = list(tr.note_events)
        if not notes:
            call(rec, chart, text, inst, diff, (), "error:noteless_track")
            call(rec, chart, text, inst, diff, (0, 10), "error:noteless_track")
            continue
        ticks = [n.tick for n in notes]
        cand = sorted(set([0] + ticks + [t + 1 for t in ticks] + [max(0, t - 1) for t in ticks] + [ticks[-1] + 1000, max(0, ticks[0] - 5)]))
        call(rec, chart, text, inst, diff, (), "form:none")
        ends = [n.end_tick for n in notes]
        if max(ends) > ends[-1]:
            rec.cls("omitted_end_longest_sustain_not_last")
        for _ in range(10):
            a, b = rng.choice(cand), rng.choice(cand)
            r = rng.random()
            if r < 0.6:
                a, b = min(a, b), max(a, b)
            if r < 0.1:
                b = a
            tsa, tsb = be.timestamp_at_tick_no_optimize_return(a), be.timestamp_at_tick_no_optimize_return(b)
            lab2 = "form:tick2" if tsb > tsa else "error:zero_length" if tsb == tsa else "error:negative_length"
            v1 = call(rec, chart, text, inst, diff, (a, b), lab2)
            v2 = call(rec, chart, text, inst, diff, (tsa, tsb), "form:ts2" if tsb > tsa else lab2)
            if v1 is not None and v2 is not None:
                rec.ev()
                if v1 != v2:
                    rec.violation("tick-time-disagree", f"notes_per_second with ticks ({a}, {b}) = {v1!r} but with the corresponding "
                                  f"timestamps ({tsa}, {tsb}) = {v2!r}", {"text": text, "instrument": inst, "difficulty": diff, "args": [a, b]},
                                  "tick-and-time-forms-disagree")
                else:
                    rec.cls("tick_and_time_forms_agree")
            if tsb > tsa:
                if a in ticks:
                    rec.cls("bound==note_time_at_start")
                if b in ticks:
                    rec.cls("bound==note_time_at_end")
                if (tsb - tsa) < timedelta(seconds=1):
                    rec.cls("sub_second_interval")
            le = tr.last_note_end_timestamp
            call(rec, chart, text, inst, diff, (a,), "form:tick" if le > tsa else "error:zero_length" if le == tsa else "error:negative_length")
            call(rec, chart, text, inst, diff, (tsa,), "form:ts" if le > tsa else "error:zero_length" if le == tsa else "error:negative_length")
            call(rec, chart, text, inst, diff, (None, b), "form:none_tick" if tsb > ZERO else "error:zero_length")
            # +-1 us around a note time
            d1 = timedelta(microseconds=1)
            nt = rng.choice(notes).timestamp
            for s_, e_ in ((nt, nt + d1), (nt - d1 if nt > ZERO else nt, nt), (nt + d1, nt + d1 + d1), (nt, nt)):
                call(rec, chart, text, inst, diff, (s_, e_), "form:ts2" if e_ > s_ else "error:zero_length")
        # bounds that ARE ticks / timestamps without being plain int / timedelta objects: an application's own subclasses and enum constants
        a_, b_ = ticks[0], ticks[-1] + 1
        tsa_, tsb_ = be.timestamp_at_tick_no_optimize_return(a_), be.timestamp_at_tick_no_optimize_return(b_)
        if tsb_ > tsa_:
            call(rec, chart, text, inst, diff, (_MyTick(a_), b_), "bounds_of_subclass_types")
            call(rec, chart, text, inst, diff, (a_, _MyTick(b_)), "bounds_of_subclass_types")
            call(rec, chart, text, inst, diff, (_MyTime(microseconds=us(tsa_)), tsb_), "bounds_of_subclass_types")
            call(rec, chart, text, inst, diff, (tsa_, _MyTime(microseconds=us(tsb_))), "bounds_of_subclass_types")
        # an interval of a day and more (explicit timestamp end far beyond the last note)
        call(rec, chart, text, inst, diff, (ZERO, timedelta(days=1, seconds=30)), "interval_of_a_day_or_more")
        call(rec, chart, text, inst, diff, (ZERO, timedelta(days=2)), "interval_of_a_day_or_more")
        # a track DERIVED from a parsed one (dataclasses.replace with fewer notes) in a chart assembled through the public constructor:
        # its rate is about ITS notes — whatever the original track had worked out for itself stays with the original
        if len(notes) >= 2 and key == present[0]:
            import dataclasses

            for keep in (1, len(notes) - 1):
                try:
                    derived = dataclasses.replace(tr, note_events=notes[:keep])
                    I_, D_ = harness.Instrument[inst], harness.Difficulty[diff]
                    chart2 = harness.Chart(chart.metadata, chart.global_events_track, chart.sync_track, {I_: {D_: derived}})
                except Exception as e:  # noqa - constructor / replace unavailable in this form: skipped, not judged
                    rec.mon(f"derived_track_skipped:{type(e).__name__}")
                    break
                call(rec, chart2, text, inst, diff, (), "derived_track", derived=keep)
                call(rec, chart2, text, inst, diff, (0,), "derived_track", derived=keep)
        call(rec, chart, text, inst, diff, (None, 0), "end_tick_0")
        call(rec, chart, text, inst, diff, (0, 0), "end_tick_0")
        call(rec, chart, text, inst, diff, (ticks[-1] + 1, 0), "end_tick_0")
        if rec.full:
            return
    # absent tracks
    absent = [p for p in model.ALL_PAIRS if f"{p[0]}/{p[1]}" not in present]
    pres_inst = {k.split("/")[0] for k in present}
    for inst, diff in rng.sample(absent, min(4, len(absent))):
        lab = "error:absent_difficulty" if inst in pres_inst else "error:absent_instrument"
        call(rec, chart, text, inst, diff, rng.choice([(), (0, 100), (timedelta(0), timedelta(seconds=5))]), lab)
    for inst in pres_inst:
        for diff in model.DIFFICULTIES:
            if f"{inst}/{diff}" not in present:
                call(rec, chart, text, inst, diff, (), "error:absent_difficulty")
                break


def shared_rates(rec, case, chart=None) -> None:
    """one parsed chart asked for rates by four threads at once (tick bounds in different tempo segments, time bounds, failing
    questions): every answer is the one the chart gives when asked alone - which the contract has judged against the definition"""
    if chart is None:
        out = harness.parse(case["text"])
        if not out.ok:
            return
        chart = out.chart
    I, D = harness.Instrument, harness.Difficulty
    calls = []
    be = chart.sync_track.bpm_events
    tt = [e.tick for e in be]
    for key in sorted(case["truth"]["tracks"]):
        inst, diff = key.split("/")
        tr = chart.instrument_tracks.get(I[inst], {}).get(D[diff])
        if tr is None:
            continue
        ticks = [n.tick for n in tr.note_events] or [0]
        pts = sorted(set([0, ticks[0], ticks[len(ticks) // 2], ticks[-1], ticks[-1] + 7] + tt[:3] + tt[-2:]))
        i_, d_ = I[inst], D[diff]
        calls.append(lambda i_=i_, d_=d_: chart.notes_per_second(i_, d_))
        for a in pts:
            calls.append(lambda i_=i_, d_=d_, a=a: chart.notes_per_second(i_, d_, a))
            for b in pts[::2]:
                calls.append(lambda i_=i_, d_=d_, a=a, b=b: chart.notes_per_second(i_, d_, a, b))
        calls.append(lambda i_=i_, d_=d_: chart.notes_per_second(i_, d_, timedelta(0), timedelta(seconds=2)))
        calls.append(lambda i_=i_, d_=d_: chart.notes_per_second(i_, d_, timedelta(microseconds=1)))
    calls.append(lambda: chart.notes_per_second(I.KEYS, D.EASY))
    calls = calls[:120]
    rec.ev(len(calls))
    bad = harness.shared_use(rec, calls, len(case["text"]), rounds=3, plain_rounds=10)
    if bad:
        rec.violation("value", "one chart asked for notes_per_second by 4 threads at once: " + bad, {"text": case["text"], "truth": case["truth"], "shared": True,
                                                                                                      "instrument": "?", "difficulty": "?", "args": []},
                      "rate-differs-when-chart-is-shared-by-threads")
    else:
        rec.cls("chart_shared_by_4_threads_for_rate_queries")


def run_shard(shard, rec, tier, seed):
    harness.setup()
    install()
    make_distractor()
    for i in range(shard["count"]):
        rng = harness.rng_for(seed, ID, shard["name"], i)
        case = gen.chart_or_interactions(rng, i, "hostile" if i % 3 == 0 else "realistic", rec, n_tracks=rng.choice([1, 2, 3]),
                             n_groups=rng.choice([0, 1, 2, 6, 25]) if i % 14 else 900, n_globals=0,
                             n_tempos=rng.choice([1, 2, 5, 12]) if i % 14 else 60)
        if i % 5 == 2 and len(case["truth"]["tempos"]) == 1:
            # one tempo segment: note lines may come in any order without upsetting any lookup; the rate is about times, not file order
            secs = []
            for name, body in case["sections"]:
                if name not in ("Song", "SyncTrack", "Events"):
                    nl = [ln for ln in body if " = N " in ln]
                    groups = {}
                    for ln in nl:
                        groups.setdefault(ln.split("=")[0].strip().lstrip("0") or "0", []).append(ln)
                    keys = list(groups)
                    rng.shuffle(keys)
                    body = [ln for k in keys for ln in groups[k]] + [ln for ln in body if " = N " not in ln]
                secs.append((name, body))
            first_forced = any(b and " = N 5 " in "".join(b[:3]) for n, b in secs if n not in ("Song", "SyncTrack", "Events"))
            if not first_forced:
                case = dict(case, text=gen.render_sections(secs), sections=[[n, b] for n, b in secs])
                rec.cls("note_lines_not_in_tick_order")
        drive(rec, rng, case)
        if i % 4 == 1 and not rec.violations and case["truth"]["tracks"]:
            shared_rates(rec, case)
        if i < 1:
            rec.sample({"tracks": sorted(case["truth"]["tracks"]), "text_head": case["text"][:200]})
        if rec.full:
            break
    n = contracts.counts.get("c16:notes_per_second_postcondition", 0)
    if n:
        rec.cls("contract_evaluated", n)
    harness.finish(rec)


def replay(case, rec):
    harness.setup()
    install()
    make_distractor()
    if case.get("shared"):
        for _ in range(6):
            shared_rates(rec, case)
            if rec.violations:
                break
        return
    out = harness.parse(case["text"])
    if not out.ok:
        return
    args = tuple(a if a is None or isinstance(a, int) else timedelta(microseconds=a["us"]) for a in case["args"])
    kinds = case.get("arg_types") or [None] * len(args)
    args = tuple(_MyTick(a) if k == "_MyTick" else _MyTime(microseconds=us(a)) if k == "_MyTime" else a for a, k in zip(args, kinds))
    chart = out.chart
    if case.get("derived_keep"):
        import dataclasses

        I_, D_ = harness.Instrument[case["instrument"]], harness.Difficulty[case["difficulty"]]
        tr = chart.instrument_tracks[I_][D_]
        try:
            chart.notes_per_second(I_, D_)  # the original track has been asked before the derived one exists
        except ValueError:
            pass
        chart = harness.Chart(chart.metadata, chart.global_events_track, chart.sync_track,
                              {I_: {D_: dataclasses.replace(tr, note_events=list(tr.note_events)[:case["derived_keep"]])}})
    for _ in range(3):  # once per call form
        call(rec, chart, case["text"], case["instrument"], case["difficulty"], args, "replay")
