"""C05 — star-power membership of notes is exact and half-open.

Monitor: reference model (linear scan of the ground-truth phrase list: first phrase with
start <= tick < start+length). Small-scope exhaustive (1-3 phrases, starts 0..6 non-decreasing, lengths 0..4;
notes on every tick 0..11 and on sparse subsets) + random nested/overlapping/touching/zero-length lists.
"""
from __future__ import annotations

import itertools

from vmon import gen, harness, mcheck, model

ID = "C05"
LEVEL = "exploration"
RULE = ("one case = one (star-power list ordered by start tick, note tick set) pair realised as a track of a full chart "
        "(40 tracks per chart); evaluations = per-note comparisons of star_power_data presence and index; distinct "
        "non-trivial = distinct (phrase list, note ticks) pairs with >= 1 phrase whose observation matched; the small scope "
        "(<= 3 phrases, starts 0..6, lengths 0..4, dense ticks 0..11 + 4 sparse subsets each) is enumerated completely on "
        "the thorough tier and sampled on quick")
ASSUMPTIONS = ["phrase lists are ordered by start tick (the quantifier's domain); equal starts keep list order"]


def exhaustive(tier):
    return tier == "thorough"


def required(tier):
    return ["note_at_start-1", "note_at_start", "note_at_end-1", "note_at_end", "zero_length_phrase_on_note_tick", "nested",
            "touching", "equal_starts", "note_before_first_phrase", "note_after_last_phrase", ">=2_phrases_skipped_in_one_step",
            "track_without_phrases", "concurrent_stage", "ticks_around_2^31..10^12", "whole_generated_chart",
            "shape:open_in_phrase", "shape:chord_in_phrase", "shape:held_note_rings_past_a_phrase_end", "shape:flagged_in_phrase"]


def configs():
    out = []
    for k in (1, 2, 3):
        for starts in itertools.combinations_with_replacement(range(7), k):
            for lens in itertools.product(range(5), repeat=k):
                out.append([[s, l] for s, l in zip(starts, lens)])
    return out


def shards(tier, seed):
    n = 16
    out = [{"name": f"scope-{i}", "kind": "scope", "part": i, "parts": n} for i in range(n)]
    m = 8 if tier == "quick" else 32
    out += [{"name": f"rand-{i}", "kind": "random", "count": 40 if tier == "quick" else 700} for i in range(m)]
    out += [{"name": f"charts-{i}", "kind": "charts", "count": 60 if tier == "quick" else 1500} for i in range(4 if tier == "quick" else 16)]
    return out


def classes(rec, phrases, ticks, j=0):
    if not phrases:
        rec.cls("track_without_phrases")
        return
    ts = set(ticks)
    for i, (s, l) in enumerate(phrases):
        if s - 1 in ts:
            rec.cls("note_at_start-1")
        if s in ts:
            rec.cls("note_at_start")
            if l == 0:
                rec.cls("zero_length_phrase_on_note_tick")
        if l and s + l - 1 in ts:
            rec.cls("note_at_end-1")
        if s + l in ts:
            rec.cls("note_at_end")
        for j in range(i + 1, len(phrases)):
            s2, l2 = phrases[j]
            if s2 == s:
                rec.cls("equal_starts")
            if s2 + l2 <= s + l and l2 and s2 >= s:
                rec.cls("nested")
            if s2 == s + l and l:
                rec.cls("touching")
    if ticks and ticks[0] < phrases[0][0]:
        rec.cls("note_before_first_phrase")
    for i, t in enumerate(ticks):
        if any(s <= t < s + l for s, l in phrases):
            g = shape(t, j, i)
            if g["open"] is not None:
                rec.cls("shape:open_in_phrase")
            elif len(g["lanes"]) > 1:
                rec.cls("shape:chord_in_phrase")
            if g["tap"] or g["forced"]:
                rec.cls("shape:flagged_in_phrase")
        g = shape(t, j, i)
        end = t + max([g["open"] or 0] + list(g["lanes"].values()))
        if any(t < s + l < end for s, l in phrases if l) and any(t < u < end for u in ticks):
            rec.cls("shape:held_note_rings_past_a_phrase_end")
    if ticks and ticks[-1] >= max(s + l for s, l in phrases):
        rec.cls("note_after_last_phrase")
    # cursor skipping: consecutive notes between which >= 2 phrases end
    for a, b in zip(ticks, ticks[1:]):
        if sum(1 for s, l in phrases if a < s + l <= b) >= 2:
            rec.cls(">=2_phrases_skipped_in_one_step")
            break


def shape(t, j, i):
    """membership is a matter of the note's TICK only: the notes come in every shape a section can write — single lanes, chords,
    open notes, held notes that still ring while later notes (and phrase ends) pass, forced and tap flags"""
    v = (t * 7 + j * 3 + i) % 10
    g = {"tick": t, "lanes": {str(t % 5): 0}, "open": None, "forced": False, "tap": False}
    if v == 0:
        g["lanes"], g["open"] = {}, 0
    elif v == 1:
        g["lanes"], g["open"] = {}, 2 + t % 7
    elif v == 2:
        g["lanes"] = {str(t % 5): 0, str((t + 2) % 5): 0}
    elif v == 3:
        g["lanes"] = {str(t % 5): 3 + (t + j) % 9}  # held across the next few ticks
    elif v == 4:
        g["lanes"] = {str(t % 5): 1, str((t + 1) % 5): 6 + j % 5, str((t + 3) % 5): 0}
    elif v == 5:
        g["tap"] = True
    elif v == 6:
        g["forced"] = i > 0
    return g


def chart_of(tracks_spec, res=192):
    tracks = {}
    for j, (phrases, ticks) in enumerate(tracks_spec):
        inst, diff = model.ALL_PAIRS[j]
        tracks[f"{inst}/{diff}"] = {
            "groups": [shape(t, j, i) for i, t in enumerate(ticks)],
            "phrases": [list(p) for p in phrases]}
    big = any(t > 10**9 for _, ticks in tracks_spec for t in ticks)
    truth = {"resolution": res, "tempos": [[0, gen.usable_n(120000 if not big else 10**9)], [4, gen.usable_n(150000 if not big else 10**9 - 1)]],
             "timesigs": [[0, 4, None]], "tracks": tracks}
    case = gen.render_truth(truth)
    # special phrases of other kinds on and around the note ticks: they are not star power
    secs = []
    for j, (name, body) in enumerate(case["sections"]):
        if name not in ("Song", "SyncTrack", "Events") and j % 3 == 0 and body:
            t0 = tracks_spec[(j - 3) % len(tracks_spec)][1][0] if tracks_spec[(j - 3) % len(tracks_spec)][1] else 0
            body = [f"  {t0} = S 0 50", f"  {t0} = S 1 50", f"  {max(0, t0 - 1)} = S 64 9"] + list(body)
        secs.append((name, body))
    case["sections"] = [[n, b] for n, b in secs]
    case["text"] = gen.render_sections(secs)
    return case


KEEP = None


def sp_list(p, kind):
    """"the recorded index identifies the first such phrase in the track's star-power list": that list (what
    instrument_track.star_power_events holds, in file order) belongs to this property's observation too"""
    return p == "C07" and kind == "starpower"


def run_specs(rec, specs):
    for i in range(0, len(specs), 40):
        chunk = specs[i:i + 40]
        case = chart_of(chunk)
        out, ob, d = mcheck.judge(rec, ("C05",), case, extra=sp_list, want=mcheck.all_present(case) if (i // 40) % 6 == 5 else None)
        if KEEP is not None:
            KEEP.add(case)
        if d is not None and not d.of("C05") and not [x for x in d.items if sp_list(x[0], x[1])] and (i // 40) % 2 == 0 \
                and not mcheck.constructor_route(rec, ("C05",), case, out):
            return
        if d is not None and not d.of("C05") and not [x for x in d.items if sp_list(x[0], x[1])]:
            for j, (phrases, ticks) in enumerate(chunk):
                classes(rec, phrases, ticks, j)
                if phrases:
                    rec.key([phrases, ticks])
        if i == 0:
            rec.sample({"phrases": chunk[0][0], "note_ticks": chunk[0][1]})
        if rec.full:
            return


def run_shard(shard, rec, tier, seed):
    harness.setup()
    rng = harness.rng_for(seed, ID, shard["name"], 0)
    if shard["kind"] == "scope":
        cf = configs()[shard["part"]::shard["parts"]]
        if tier == "quick":
            cf = rng.sample(cf, 100)
            cf += [[[0, 0]], [[2, 0], [2, 3]], [[0, 4], [1, 1]], [[0, 2], [2, 2]], [[0, 1], [1, 1], [2, 1]], [[3, 1], [4, 1], [6, 2]]]
        specs = []
        for ph in cf:
            specs.append((ph, list(range(12))))
            for _ in range(4):
                ticks = sorted(rng.sample(range(14), rng.choice([1, 2, 3, 4])))
                specs.append((ph, ticks))
        specs.append(([], [0, 3, 5]))
        run_specs(rec, specs)
    elif shard["kind"] == "charts":
        # whole generated charts: every instrument (Drums, GHL, ...), realistic and hostile note/phrase/tempo structure together
        for i in range(shard["count"]):
            rng = harness.rng_for(seed, ID, shard["name"], i)
            case = gen.chart_or_interactions(rng, i, "hostile" if i % 2 else "realistic", rec, n_tracks=rng.choice([1, 2, 4]), n_groups=rng.choice([10, 60, 250]),
                                 n_globals=0, n_tempos=rng.choice([1, 3, 10]))
            out, ob, d = mcheck.judge(rec, ("C05",), case, extra=sp_list)
            if d is not None and not mcheck.select(d, ("C05",), sp_list):
                rec.cls("whole_generated_chart")
                for k, tr in case["truth"]["tracks"].items():
                    rec.cls("instrument:" + k.split("/")[0])
                    if tr["phrases"]:
                        rec.key([k, tr["phrases"], [g["tick"] for g in tr["groups"]]])
            if rec.full:
                break
    else:
        global KEEP
        KEEP = mcheck.Keep(limit=4, max_chars=25000)
        for i in range(shard["count"]):
            rng = harness.rng_for(seed, ID, shard["name"], i)
            specs = []
            for _ in range(rng.choice([1, 5, 40])):
                np_ = rng.choice([0, 1, 2, 5, 12, 60]) if rng.random() < 0.97 else rng.choice([130, 300, 700])
                base = rng.choice([0, 10, 10**6]) if rng.random() < 0.85 else rng.choice(gen.HUGE_BASES)
                if base > 10**9:
                    rec.cls("ticks_around_2^31..10^12")
                span = rng.choice([10, 40, 1000]) if np_ < 100 else 20 * np_
                phrases = sorted([[base + rng.randint(0, span), rng.choice([0, 0, 1, 2, 3, rng.randint(0, span)])] for _ in range(np_)],
                                 key=lambda p: p[0])
                ticks = set()
                for s, l in phrases:
                    for t in (s - 1, s, s + l - 1, s + l):
                        if t >= 0 and rng.random() < 0.5:
                            ticks.add(t)
                for _ in range(rng.choice([0, 3, 20])):
                    ticks.add(base + rng.randint(0, span + 20))
                if not ticks:
                    ticks.add(base)
                specs.append((phrases, sorted(ticks)))
            run_specs(rec, specs)
            if rec.full:
                break
        if not rec.full:
            # first-use growth: more phrases than any chart parsed so far in this process, parsed by all threads at once
            npz = 1500
            big = chart_of([([[10 * k, 5] for k in range(npz)], [10 * k + 1 for k in range(npz - 5, npz)])])
            mcheck.threaded_stage(rec, ("C05",), KEEP.cases, repeats=1, first={"text": big["text"], "truth": big["truth"]})
    harness.finish(rec)


def replay(case, rec):
    harness.setup()
    mcheck.replay_case(rec, ("C05",), case)
