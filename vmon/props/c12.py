"""C12 — time is a non-decreasing function of tick across the whole chart.

Monitor: monotonic-trace checker over ascending sweeps of the public tick-to-time query and over all
events of all tracks of a parsed chart merged by tick (equal ticks => identical timestamps everywhere,
note end >= start); strictness demanded only when every tempo satisfies n*res <= 3*10^10.
"""
from __future__ import annotations

from vmon import gen, harness, model
from vmon.observe import us

ID = "C12"
LEVEL = "exploration"
RULE = ("one case = one tempo map (alternating 0.001 <-> 10^6 BPM, ramps, 1-tick segments, sub-microsecond ticks, maps exactly at "
        "the strictness bound n*res = 3*10^10, realistic maps) swept in ascending tick order over every tempo tick -2..+2, random "
        "ticks and runs of 50 consecutive ticks, plus the merged events of the parsed chart; evaluations = adjacent pairs "
        "compared; distinct non-trivial = distinct maps with >= 2 tempo events whose sweep held")
ASSUMPTIONS = ["strictness is required only when one tick lasts >= 2 us at every tempo of the chart", "all times kept below 10^6 s"]


def required(tier):
    return ["pair_straddles_1_tempo_change", "pair_straddles>=3_tempo_changes", "strict_eligible_map", "map_exactly_at_strict_bound",
            "non_eligible_equal_consecutive_times_seen", "cross_track_equal_tick_pairs", "note_end_vs_start", "chart_with_anchor_lines",
            "chart_with_nonzero_offset", "whole_generated_chart"]


def shards(tier, seed):
    n = 16 if tier == "quick" else 48
    return [{"name": f"sweep-{i}", "count": 40 if tier == "quick" else 800} for i in range(n)]


def make_map(rng, i):
    style = ["realistic", "alternating", "ramp", "one_tick", "sub_us", "at_bound", "hostile"][i % 7]
    limit = 5 * 10**5 * 10**6
    if style == "realistic":
        res = gen.gen_resolution(rng, "realistic")
        return res, gen.gen_tempos(rng, "realistic", res, rng.choice([2, 5, 12, 12, 70, 400]), 3000 * 10**6), style
    if style == "hostile":
        res = gen.gen_resolution(rng, "hostile")
        return res, gen.gen_tempos(rng, "hostile", res, rng.choice([2, 9, 40]), limit), style
    if style == "at_bound":
        res = rng.choice([192, 480, 960, 1000, 3, 1])
        n0 = 3 * 10**10 // res
        if n0 > 10**9:
            res = 960
            n0 = 3 * 10**10 // res
        ns = [n0, max(1, n0 // 2), n0, max(1, n0 - 1), n0]
        t, tempos = 0, []
        for n in ns:
            tempos.append([t, gen.usable_n(n) if gen.usable_n(n) <= n0 else n])
            t += rng.choice([1, 2, 3, 50])
        return res, tempos, style
    res = rng.choice([1, 7, 192, 480, 10000])
    k = rng.choice([4, 10, 40, 40, 300])
    t, tempos, cum = 0, [], 0
    for j in range(k):
        if style == "alternating":
            n = 1 if j % 2 else 10**9
        elif style == "ramp":
            n = int(1000 * (1.35 ** j)) if rng.random() < 0.9 else 10**9
            n = min(n, 10**9)
        elif style == "one_tick":
            n = rng.choice([1000, 60000, 10**6, 10**9, 17])
        else:  # sub_us
            n = rng.choice([10**9, 10**9 - 1, 5 * 10**8])
        n = gen.usable_n(max(1, n))
        upt = 6 * 10**10 / (n * res)
        ln = 1 if style in ("one_tick", "alternating") else rng.choice([1, 2, 50, 1000])
        if cum + ln * upt > limit * 0.7:
            n = 10**9
            upt = 6 * 10**10 / (n * res)
        tempos.append([t, n])
        t += ln
        cum += ln * upt
    return res, tempos, style


def sweep_ticks(rng, tm, hz):
    s = set()
    for t in tm.ticks:
        for d in (-2, -1, 0, 1, 2):
            s.add(t + d)
    for _ in range(20):
        s.add(rng.randint(0, hz))
    for _ in range(2):
        a = rng.randint(0, max(0, hz - 50))
        s.update(range(a, a + 50))
    a = rng.choice(tm.ticks)
    s.update(range(max(0, a - 25), a + 25))
    for g in rng.sample(range(len(tm.ticks) - 1), min(len(tm.ticks) - 1, 4)) if len(tm.ticks) > 1 else []:
        mid = (tm.ticks[g] + tm.ticks[g + 1]) // 2  # an implementation may switch reference points inside a segment
        s.update(range(max(0, mid - 8), mid + 9))
    return sorted(x for x in s if 0 <= x <= hz)


def run_map(rec, rng, i):
    res, tempos, style = make_map(rng, i)
    if rng.random() < 0.25:
        for k in range(1, len(tempos)):
            if rng.random() < 0.5:
                tempos[k][1] = tempos[k - 1][1]  # redundant tempo events (same tempo again)
    tm = model.TempoMap(res, tempos)
    hz = min(tm.horizon(9 * 10**5 * 10**6), tm.ticks[-1] + 10**5)
    ticks = sweep_ticks(rng, tm, hz)
    # a chart with events of several tracks on shared ticks
    ev_ticks = sorted(set(rng.sample(ticks, min(len(ticks), 14))))
    groups = [{"tick": t, "lanes": {str(j % 5): min(rng.choice([0, 1, 3, 100]), max(0, hz - t))}, "open": None, "forced": False, "tap": False}
              for j, t in enumerate(ev_ticks)]
    md = {"resolution": res}
    if rng.random() < 0.6:
        md.update({"offset": rng.choice([0, 1, 2, 30, 99999]), "preview_start": rng.choice([0, 5, 30]), "preview_end": rng.choice([0, 60]),
                   "difficulty": rng.choice([0, 3])})
    anchors = []
    if rng.random() < 0.5:
        for t in sorted(set(rng.choice(tm.ticks + ev_ticks) for _ in range(rng.choice([1, 2, 5])))):
            exact_us = int(tm.exact(t))
            anchors.append([t, rng.choice([exact_us, max(0, exact_us - rng.choice([1, 1000, 10**6])), exact_us + rng.choice([1, 10**6]), 0])])
        rec.cls("chart_with_anchor_lines")
    if md.get("offset"):
        rec.cls("chart_with_nonzero_offset")
    truth = {"resolution": res, "metadata": md, "anchors": anchors, "tempos": tempos,
             "timesigs": [[0, 4, None]] + [[t, 3, None] for t in sorted(set(ev_ticks[1:4] + ev_ticks[-3:]))],
             "globals": [[t, "text", "x"] for t in ev_ticks],
             "tracks": {"GUITAR/EXPERT": {"groups": groups, "phrases": [[t, 1] for t in ev_ticks], "tevents": [[t, "e"] for t in ev_ticks]},
                        "BASS/EASY": {"groups": [dict(g) for g in groups[::2]], "phrases": [], "tevents": [[t, "f"] for t in ev_ticks[::3]]}}}
    case = gen.render_truth(truth)
    out = harness.parse(case["text"])
    rcase = {"text": case["text"], "ticks": ticks}
    if not out.ok:
        rec.ev()
        rec.violation("well-formed-chart-rejected", f"chart rejected with {harness.exc_str(out.exc)}", rcase, f"rejected:{type(out.exc).__name__}")
        return
    check(rec, out.chart, tm, ticks, rcase, style)


def run_whole_chart(rec, rng, i):
    """a whole generated chart (chords, held notes over later notes, phrases, several tracks, all global kinds): same oracle"""
    case = gen.chart_or_interactions(rng, i, "hostile" if i % 2 else "realistic", rec, n_tracks=rng.choice([1, 2, 4]), n_groups=rng.choice([5, 40, 200]),
                         n_tempos=rng.choice([1, 2, 6, 25]))
    tm = model.TempoMap(case["truth"]["resolution"], case["truth"]["tempos"])
    hz = min(tm.horizon(9 * 10**5 * 10**6), max(case["horizon"], tm.ticks[-1]) + 10**4)
    ticks = sweep_ticks(rng, tm, hz)
    out = harness.parse(case["text"])
    rcase = {"text": case["text"], "ticks": ticks}
    if not out.ok:
        rec.ev()
        rec.violation("well-formed-chart-rejected", f"chart rejected with {harness.exc_str(out.exc)}", rcase, f"rejected:{type(out.exc).__name__}")
        return
    rec.cls("whole_generated_chart")
    check(rec, out.chart, tm, ticks, rcase, "whole_chart")


def check(rec, chart, tm, ticks, rcase, style):
    be = chart.sync_track.bpm_events
    strict = tm.strict_eligible()
    prev_t, prev_ts = None, None
    ok = True
    equal_seen = False
    times = {}
    if len(ticks) % 5 == 2:
        # the map's first questions are cut short by an asynchronous exception (timeout / Ctrl-C) which the application swallows
        import random as _random

        if harness.interrupted(lambda: [be.timestamp_at_tick_no_optimize_return(t) for t in ticks[:120]], _random.Random(len(ticks)), 5, rec):
            rec.cls("first_queries_of_the_map_were_aborted_midway")
    for t in ticks:
        if t % 5 == 0:
            harness.distract(rec)
        times[t] = us(be.timestamp_at_tick_no_optimize_return(t))
    if len(ticks) % 3 == 0:
        # the tempo map as seen through the copy protocols: one time function, not one per copy (a refusal to copy is skipped)
        import copy
        import pickle

        for how, fn in (("copy.deepcopy", copy.deepcopy), ("a pickle round trip", lambda x: pickle.loads(pickle.dumps(x))), ("copy.copy", copy.copy)):
            try:
                dup = fn(be)
            except Exception:  # noqa
                continue
            rec.ev()
            rec.cls("copy_of_the_tempo_map_swept")
            bad = next((t for t in ticks if us(dup.timestamp_at_tick_no_optimize_return(t)) != times[t]), None)
            if bad is not None:
                rec.violation("copy-differs", f"{how} of the chart's tempo map puts tick {bad} at {us(dup.timestamp_at_tick_no_optimize_return(bad))} us, the "
                              f"chart itself at {times[bad]} us: events and queries of one chart disagree once a copy is in play", rcase, "copy-shows-other-times")
                return
    # the dense ascending sweep, then sparse sub-sweeps (pairs far apart, straddling several tempo changes)
    order = list(ticks) + [None] + list(ticks[::7]) + [None] + list(ticks[3::23])
    for t in order:
        if t is None:
            prev_t = None
            continue
        ts = times[t]
        if prev_t is not None:
            rec.ev()
            if ts < prev_ts:
                rec.violation("inversion", f"time({prev_t}) = {prev_ts} us > time({t}) = {ts} us (tempo map {list(zip(tm.ticks, tm.ns))[:8]}, "
                              f"resolution {tm.res})", rcase, "time-decreases-with-tick")
                ok = False
                break
            if ts == prev_ts:
                if strict and t > prev_t:
                    rec.violation("not-strict", f"time({prev_t}) = time({t}) = {ts} us although one tick lasts >= 2 us at every tempo "
                                  f"(tempo map {list(zip(tm.ticks, tm.ns))[:8]}, resolution {tm.res})", rcase, "time-not-strictly-increasing")
                    ok = False
                    break
                equal_seen = True
            k = tm.gov(t) - tm.gov(prev_t)
            if k == 1:
                rec.cls("pair_straddles_1_tempo_change")
            elif k >= 3:
                rec.cls("pair_straddles>=3_tempo_changes")
        prev_t, prev_ts = t, ts
    # merged events of all tracks
    evs = []
    st, ge = chart.sync_track, chart.global_events_track
    for e in list(st.bpm_events) + list(st.time_signature_events) + list(ge.text_events) + list(ge.section_events) + list(ge.lyric_events):
        evs.append((e.tick, us(e.timestamp), type(e).__name__))
    for m in chart.instrument_tracks.values():
        for tr in m.values():
            for e in list(tr.star_power_events) + list(tr.track_events):
                evs.append((e.tick, us(e.timestamp), type(e).__name__))
            for n in tr.note_events:
                evs.append((n.tick, us(n.timestamp), "NoteEvent"))
                evs.append((n.end_tick, us(n.end_timestamp), "NoteEvent.end"))
                rec.ev()
                rec.cls("note_end_vs_start")
                if n.end_timestamp < n.timestamp:
                    rec.violation("end-before-start", f"note at tick {n.tick}: end_timestamp {n.end_timestamp} < timestamp {n.timestamp}", rcase,
                                  "note-end-before-start")
                    ok = False
    # ... and the directly queried ticks among them: one time function for events and queries alike
    for t in ticks[::max(1, len(ticks) // 400)]:
        evs.append((t, times[t], "direct query"))
    evs.sort(key=lambda x: (x[0], x[1]))
    for a, b in zip(evs, evs[1:]):
        rec.ev()
        if a[0] == b[0]:
            rec.cls("cross_track_equal_tick_pairs")
            if a[1] != b[1]:
                rec.violation("equal-ticks-differ", f"tick {a[0]}: {a[2]} has {a[1]} us but {b[2]} has {b[1]} us", rcase, "equal-ticks-different-times")
                ok = False
                break
        elif b[1] < a[1] or (strict and b[1] == a[1]):
            rec.violation("inversion", f"{a[2]} at tick {a[0]} = {a[1]} us vs {b[2]} at tick {b[0]} = {b[1]} us "
                          f"({'strictness required' if strict else 'non-decreasing required'})", rcase, "event-times-out-of-order")
            ok = False
            break
    if ok and len(ticks) % 12 == 1 and not rcase.get("no_threads"):
        # the same time function for every thread: four threads sweep the shared map at once, each in another part of it
        sub = list(ticks[::max(1, len(ticks) // 60)])
        calls = [lambda t=t: us(be.timestamp_at_tick_no_optimize_return(t)) for t in sub] + [lambda t=t: us(be.timestamp_at_tick(t)[0]) for t in sub[::3]]
        rec.ev(len(calls))
        bad = harness.shared_use(rec, calls, len(ticks), rounds=2, plain_rounds=8)
        if bad:
            rec.violation("inversion", f"one chart's tempo map swept by 4 threads at once (ticks {sub[:4]}...{sub[-2:]}): {bad} - the order of times no longer "
                          "follows the order of ticks for every reader", dict(rcase, shared=True), "time-differs-when-map-is-shared-by-threads")
            ok = False
        else:
            rec.cls("tempo_map_swept_by_4_threads_at_once")
    if ok:
        if strict:
            rec.cls("strict_eligible_map")
            if any(n * tm.res == 3 * 10**10 for n in tm.ns):
                rec.cls("map_exactly_at_strict_bound")
        elif equal_seen:
            rec.cls("non_eligible_equal_consecutive_times_seen")
        rec.cls(f"style:{style}")
        if len(tm.ticks) >= 2:
            rec.key([tm.res, tm.ticks, tm.ns])


def big_map_first_use_aborted(rec, rng):
    """A song with 3000 tempo changes; the chart is parsed afresh a few times and each time its map's very FIRST question is cut short
    (timer signal whose handler raises, 10-400 us in) - whatever a map sets up on first use is set up here on a map large enough for the
    abort to land inside it. The application swallows the abort and goes on asking: the sweep is then judged as always."""
    import signal

    res = 192
    n = 3000
    tempos = [[k * 96, gen.usable_n(90000 + (k * 7919) % 120000)] for k in range(n)]
    text = gen.render_truth({"resolution": res, "tempos": tempos, "timesigs": [[0, 4, None]],
                             "tracks": {"GUITAR/EXPERT": {"groups": [{"tick": t, "lanes": {"0": 0}, "open": None, "forced": False, "tap": False}
                                                                     for t in range(0, n * 96, 9600)]}}})["text"]
    tm = model.TempoMap(res, tempos)
    ticks = sorted(set(list(range(0, 96 * 40, 96)) + [k * 96 + d for k in range(0, n, 37) for d in (-1, 0, 1) if k * 96 + d >= 0] + [n * 96 + 5]))
    aborted = 0
    for a in range(5):
        out = harness.parse(text)
        if not out.ok:
            rec.ev()
            rec.violation("well-formed-chart-rejected", harness.exc_str(out.exc), {"text": text, "ticks": ticks}, "rejected")
            return
        be = out.chart.sync_track.bpm_events

        def handler(signum, frame):
            raise harness._Abort("aborted")

        try:
            old = signal.signal(signal.SIGALRM, handler)
        except (ValueError, OSError):
            return
        try:
            try:
                signal.setitimer(signal.ITIMER_REAL, rng.uniform(10e-6, 400e-6))
                try:
                    for t in ticks[:60]:
                        be.timestamp_at_tick_no_optimize_return(t)
                finally:
                    signal.setitimer(signal.ITIMER_REAL, 0)
            except harness._Abort:
                aborted += 1
            except Exception:  # noqa
                pass
        finally:
            signal.signal(signal.SIGALRM, old)
        check(rec, out.chart, tm, ticks, {"text": text, "ticks": ticks, "no_threads": True, "big_map_first_use_aborted": True}, "big_map_first_use_aborted")
        if rec.violations:
            return
    if aborted:
        rec.cls("map_of_3000_tempo_changes_whose_first_question_was_aborted")
        rec.mon("first_questions_of_a_big_map_aborted", aborted)


def run_shard(shard, rec, tier, seed):
    harness.setup()
    if str(shard["name"])[-1:] in "0369":
        big_map_first_use_aborted(rec, harness.rng_for(seed, ID, shard["name"], "big"))
    for i in range(shard["count"]):
        rng = harness.rng_for(seed, ID, shard["name"], i)
        if i % 5 == 4:
            run_whole_chart(rec, rng, i)
        else:
            run_map(rec, rng, i)
        if rec.full:
            break
    harness.finish(rec)


def replay(case, rec):
    harness.setup()
    out = harness.parse(case["text"])
    if not out.ok:
        rec.ev()
        rec.violation("well-formed-chart-rejected", harness.exc_str(out.exc), case)
        return
    be = out.chart.sync_track.bpm_events
    tm = model.TempoMap(be.resolution, [[e.tick, round(e.bpm * 1000)] for e in be])
    for _ in range(6 if case.get("shared") else 1):
        check(rec, out.chart, tm, case["ticks"], case, "replay")
        if rec.violations:
            break
