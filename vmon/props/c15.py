"""C15 — untrustworthy tempo data is rejected loudly, never turned into times.

Monitor: fault enumeration. Well-formed charts x every position x every corruption operator of the sync
data, oracle on the exception type and — for a zero tempo — on what the returned chart may contain and
on what the tick-to-time query does around the zero tempo; direct construction of the public value
classes with the same faults; the always-on postcondition on BPMEvents.timestamp_at_tick
(returned => tick >= 0 and governing tempo > 0).
"""
from __future__ import annotations

from datetime import timedelta

from vmon import contracts, gen, harness, model

ID = "C15"
LEVEL = "fault_enumeration"
RULE = ("one case = (well-formed chart, corruption operator, position): drop / shift the tick-0 tempo or tick-0 signature, duplicate a "
        "tempo tick, swap two adjacent tempo lines, 'B 0' / 'B 000' at any position, Resolution = 0 / 00 — applied at EVERY position "
        "of every generated chart; plus direct constructions of BPMEvents / SyncTrack with the same faults and negative-tick "
        "queries on every parsed chart; evaluations = faulted parses + constructions + queries judged; distinct non-trivial = "
        "distinct (operator, position, faulted text) triples on charts with events in >= 1 track")
ASSUMPTIONS = [
    "zero tempo at tick z: either ValueError, or a chart with no event at a tick >= z, on which queries at z, z+1 and far beyond raise ValueError",
    "a negative resolution cannot be written so that it is recognised; the file-level operator is 0 only (negatives via the constructor)",
    "constructor probes use the public dataclass signatures; if those change the probe is skipped (counted), not failed",
]
OPS = ["drop_B0", "shift_B0", "drop_TS0", "shift_TS0", "dup_B", "swap_B", "zero_B", "zero_B_padded", "res_0", "res_00"]


def required(tier):
    return [f"op:{o}" for o in OPS] + ["pos:first", "pos:middle", "pos:last", "zero_last:no_governed_events",
                                        "zero_last:governed_events", "single_tempo_map", "negative_tick_query_raises", "negative_tick_rate_bound_raises",
                                        "ctor:BPMEvents:resolution<=0", "ctor:BPMEvents:empty", "ctor:BPMEvents:first_tick!=0:1", "ctor:BPMEvents:first_tick!=0:2",
                                        "ctor:BPMEvents:first_tick!=0:many", "ctor:SyncTrack:no_signature", "ctor:SyncTrack:first_signature!=0", "contract_evaluated",
                                        "zero_last:only_a_held_note_end_governed"]


def shards(tier, seed):
    n = 16 if tier == "quick" else 48
    return [{"name": f"faults-{i}", "count": 7 if tier == "quick" else 110} for i in range(n)]


def sync_lines(truth, tempos=None, timesigs=None):
    tempos = truth["tempos"] if tempos is None else tempos
    timesigs = truth["timesigs"] if timesigs is None else timesigs
    items = [(t, 1, f"  {t} = B {n}") for t, n in tempos] + [(t, 0, f"  {t} = TS {u}" + ("" if e is None else f" {e}")) for t, u, e in timesigs]
    items.sort(key=lambda x: (x[0], x[1]))
    return [x[2] for x in items]


def rebuild(case, sync=None, res_line=None):
    secs = []
    for name, body in case["sections"]:
        if name == "SyncTrack" and sync is not None:
            body = sync
        if name == "Song" and res_line is not None:
            body = [res_line if ln.strip().startswith("Resolution =") else ln for ln in body]
        secs.append((name, body))
    text = gen.render_sections(secs)
    # a third of the renderings end at the last brace, without a line terminator (a function of the text, so replays agree)
    return text[:-1] if len(text) % 3 == 0 else text


def faults(case):
    """yields (op, position label, k, text, zero_tick|None)"""
    truth = case["truth"]
    T, S = truth["tempos"], truth["timesigs"]
    n = len(T)

    def pos(k, total):
        return "first" if k == 0 else "last" if k == total - 1 else "middle"

    yield "drop_B0", "first", 0, rebuild(case, sync_lines(truth, tempos=T[1:])), None
    nxt = T[1][0] if n > 1 else 50
    for s in sorted({1, max(1, nxt - 1), max(1, nxt // 2)}):
        if n > 1 and s >= nxt:
            continue
        yield "shift_B0", "first", s, rebuild(case, sync_lines(truth, tempos=[[s, T[0][1]]] + T[1:])), None
    yield "drop_TS0", "first", 0, rebuild(case, sync_lines(truth, timesigs=S[1:])), None
    for s in (1, 7):
        yield "shift_TS0", "first", s, rebuild(case, sync_lines(truth, timesigs=sorted([[s, S[0][1], S[0][2]]] + S[1:], key=lambda x: x[0]))), None
    for k in range(n):
        # duplicate tempo tick k: a second B line at the same tick
        lines = sync_lines(truth)
        i = lines.index(f"  {T[k][0]} = B {T[k][1]}")
        yield "dup_B", pos(k, n), k, rebuild(case, lines[:i + 1] + [f"  {T[k][0]} = B {T[k][1] + 1000}"] + lines[i + 1:]), None
        if k + 1 < n:
            j = lines.index(f"  {T[k + 1][0]} = B {T[k + 1][1]}")
            sw = list(lines)
            sw[i], sw[j] = sw[j], sw[i]
            yield "swap_B", pos(k, n - 1), k, rebuild(case, sw), None
        for op, z in (("zero_B", "0"), ("zero_B_padded", "000")):
            zl = [ln if ln != f"  {T[k][0]} = B {T[k][1]}" else f"  {T[k][0]} = B {z}" for ln in lines]
            yield op, pos(k, n), k, rebuild(case, zl), T[k][0]
    yield "res_0", "first", 0, rebuild(case, res_line="  Resolution = 0"), None
    yield "res_00", "first", 0, rebuild(case, res_line="  Resolution = 00"), None


def _held(open_=None, lanes=None, forced=False, tap=False):
    return lambda L: {"open": (L if open_ else None), "lanes": {k: (L if v else 0) for k, v in (lanes or {}).items()}, "forced": forced, "tap": tap}


HELD_SHAPES = [_held(open_=True, forced=True), _held(lanes={"0": 0, "3": 1}), _held(open_=True, tap=True), _held(lanes={"2": 1}, tap=True),
               _held(open_=True), _held(lanes={"1": 1, "4": 1}, forced=True), _held(lanes={"0": 1, "1": 0, "2": 0, "3": 0, "4": 0}),
               _held(lanes={"4": 1, "0": 0}, forced=True, tap=True)]


def written_event_ticks(truth) -> list:
    out = [t for t, _, _ in truth.get("timesigs", [])] + [t for t, _, _ in truth.get("globals", [])]
    for tr in truth.get("tracks", {}).values():
        for g in tr["groups"]:
            ln = g["open"] if g.get("open") is not None else max(g["lanes"].values(), default=0)
            out += [g["tick"], g["tick"] + ln]
        out += [t for t, _ in tr.get("phrases", [])] + [t for t, _ in tr.get("tevents", [])]
    return out


def all_event_ticks(chart):
    out = []
    st, ge = chart.sync_track, chart.global_events_track
    for e in list(st.time_signature_events) + list(ge.text_events) + list(ge.section_events) + list(ge.lyric_events):
        out.append(e.tick)
    for m in chart.instrument_tracks.values():
        for tr in m.values():
            out += [e.tick for e in tr.star_power_events] + [e.tick for e in tr.track_events]
            for nt in tr.note_events:
                out += [nt.tick, nt.end_tick]
    return out


def judge_fault(rec, op, poslab, k, text, zero_tick, truth):
    case = {"text": text, "op": op, "k": k, "zero_tick": zero_tick}
    if zero_tick is not None and poslab == "last":
        ticks = []
        for tr in truth["tracks"].values():
            ticks += [g["tick"] for g in tr["groups"]]
        ticks += [t for t, _, _ in truth.get("globals", [])]
        rec.cls("zero_last:governed_events" if any(t >= zero_tick for t in ticks) else "zero_last:no_governed_events")
    contracts.drain("C15")
    out = harness.parse(text)
    rec.ev()
    for b in contracts.drain("C15"):
        rec.violation("contract", f"{op}@{k}: {b['message']}", case, "time-returned-for-untrusted-tick")
        return
    if out.ok:
        if zero_tick is None:
            rec.violation("accepted", f"corruption {op} (position {k}) was accepted: Chart.from_file returned a chart", case, f"accepted:{op}")
            return
        # zero tempo: a chart may come back only if nothing is governed by it
        governed = [t for t in all_event_ticks(out.chart) if t >= zero_tick]
        written = written_event_ticks(truth)
        lost = sorted(t for t in written if t >= zero_tick)
        if lost and not governed:
            rec.violation("zero-tempo-events-dropped", f"'B 0' at tick {zero_tick}: the text places events at ticks {lost[:5]} under the zero tempo; "
                          "the chart was returned without them instead of being rejected with ValueError", case,
                          "zero-tempo-governed-events-silently-dropped")
            return
        be = out.chart.sync_track.bpm_events
        later_tempo = [e.tick for e in be if e.tick > zero_tick]
        if governed or later_tempo:
            rec.violation("zero-tempo-governs-events", f"'B 0' at tick {zero_tick} accepted although events at ticks {governed[:5]} / later tempo "
                          f"events at {later_tempo[:3]} are governed by it", case, "zero-tempo-accepted-with-governed-events")
            return
        for q in (zero_tick, zero_tick + 1, zero_tick + 10**6, zero_tick, zero_tick + 1):  # asked twice: a failed query must stay failed
          for fn in (be.timestamp_at_tick, be.timestamp_at_tick_no_optimize_return, lambda t: be.timestamp_at_tick(t, start_iteration_index=len(be) - 1)):
            rec.ev()
            try:
                r = fn(q)
                rec.violation("zero-tempo-query-returns", f"'B 0' at tick {zero_tick}: a tick-to-time query for tick {q} returned {r}", case,
                              "zero-tempo-query-returns")
                return
            except ValueError:
                pass
            except Exception as e:  # noqa
                rec.violation("wrong-error", f"'B 0' at tick {zero_tick}: timestamp_at_tick({q}) raised {harness.exc_str(e)}, not ValueError", case,
                              "zero-tempo-wrong-exception")
                return
        if (len(text) + k) % 3 == 0:
            # the same refusals for every thread: the map is asked by four threads at once about ticks it can time (before the zero
            # tempo) and ticks it must refuse (under the zero tempo, negative) - nobody gets a time for a refused tick
            qs = sorted({0, max(0, zero_tick - 1), zero_tick // 2}) + [zero_tick, zero_tick + 1, zero_tick + 10**6, -1, -7]
            calls = [lambda q=q: be.timestamp_at_tick_no_optimize_return(q) for q in qs] + [lambda q=q: be.timestamp_at_tick(q) for q in qs] + \
                    [lambda q=q: be.timestamp_at_tick(q, start_iteration_index=len(be) - 1) for q in qs[-5:]]
            rec.ev(len(calls))
            bad = harness.shared_use(rec, calls, len(text), rounds=3, plain_rounds=10)
            if bad:
                rec.violation("zero-tempo-query-returns", f"'B 0' at tick {zero_tick}, the returned chart's tempo map asked by 4 threads at once (ticks {qs}): {bad}",
                              dict(case, shared=True), "untrusted-tick-answered-when-map-is-shared-by-threads")
                return
            rec.cls("zero_tempo_map_shared_by_4_threads")
        rec.cls("zero_last:no_governed_events:parsed_and_queries_raise")
    else:
        if not isinstance(out.exc, ValueError):
            rec.violation("wrong-error", f"corruption {op} (position {k}) raised {harness.exc_str(out.exc)}, not ValueError", case,
                          f"wrong-exception:{op}:{type(out.exc).__name__}")
            return
        if zero_tick is not None and poslab == "last":
            ticks = []
            for tr in truth["tracks"].values():
                ticks += [g["tick"] for g in tr["groups"]]
            if any(t >= zero_tick for t in ticks):
                rec.cls("zero_last:governed_events:ValueError")
    rec.cls(f"op:{op}")
    rec.cls(f"pos:{poslab}")
    if truth["tracks"]:
        rec.key([op, k, text])


def negative_queries(rec, chart, text):
    be = chart.sync_track.bpm_events
    last = len(be) - 1
    for q in (-1, -(10**9), -1):  # -1 twice: a failed query must stay failed when repeated
        for fn, nm in ((be.timestamp_at_tick, "timestamp_at_tick"), (be.timestamp_at_tick_no_optimize_return, "timestamp_at_tick_no_optimize_return"),
                       (lambda t: be.timestamp_at_tick(t, start_iteration_index=last), f"timestamp_at_tick(start_iteration_index={last})"),
                       (lambda t: be.timestamp_at_tick(t, start_iteration_index=0), "timestamp_at_tick(start_iteration_index=0)")):
            rec.ev()
            try:
                r = fn(q)
                rec.violation("negative-tick-returns", f"{nm}({q}) returned {r}", {"text": text, "op": "negative_query", "k": q, "zero_tick": None},
                              "negative-tick-query-returns")
                return
            except ValueError:
                rec.cls("negative_tick_query_raises")
            except Exception as e:  # noqa
                rec.violation("wrong-error", f"{nm}({q}) raised {harness.exc_str(e)}, not ValueError",
                              {"text": text, "op": "negative_query", "k": q, "zero_tick": None}, "negative-tick-wrong-exception")
                return


def negative_rate_bounds(rec, chart, text):
    """Chart.notes_per_second with a negative tick bound needs the time of a negative tick: ValueError, never a figure"""
    for inst, m in chart.instrument_tracks.items():
        for diff, tr in m.items():
            if not tr.note_events:
                continue
            last = tr.note_events[-1].tick + 10
            for args in ((-1,), (-5, last), (-(10**9), last), (0, -1), (None, -3)):
                rec.ev()
                case = {"text": text, "op": "negative_rate_bound", "k": list(args), "zero_tick": None}
                try:
                    r = chart.notes_per_second(inst, diff, *args)
                    rec.violation("negative-tick-returns", f"notes_per_second({inst.name}, {diff.name}, {args}) returned {r!r} although a bound is a "
                                  "negative tick, which has no time", case, "negative-tick-rate-bound-returns")
                    return
                except ValueError:
                    rec.cls("negative_tick_rate_bound_raises")
                except Exception as e:  # noqa
                    rec.violation("wrong-error", f"notes_per_second(..., {args}) raised {harness.exc_str(e)}, not ValueError", case,
                                  "negative-tick-wrong-exception")
                    return
            return


def ctor_probes(rec, rng):
    import chartparse.sync as S

    def ev(tick, bpm=120.0):
        return S.BPMEvent(tick=tick, timestamp=timedelta(seconds=tick / 100), bpm=bpm)

    def ts(tick):
        return S.TimeSignatureEvent(tick=tick, timestamp=timedelta(0), upper_numeral=4, lower_numeral=4)

    def expect_value_error(label, fn):
        rec.ev()
        try:
            obj = fn()
        except ValueError:
            rec.cls(label)
            return
        except TypeError as e:
            rec.mon(f"ctor_probe_skipped:{label}")
            rec.diag(f"constructor probe {label} skipped: {e}")
            return
        except Exception as e:  # noqa
            rec.violation("wrong-error", f"{label}: raised {harness.exc_str(e)}, not ValueError", {"ctor": label}, f"ctor-wrong-exception:{label}")
            return
        rec.violation("accepted", f"{label}: construction succeeded ({obj!r:.200})", {"ctor": label}, f"ctor-accepted:{label}")

    try:
        good = S.BPMEvents(events=[ev(0)], resolution=192)
    except Exception as e:  # noqa
        rec.mon("ctor_probe_skipped:all")
        rec.diag(f"constructor probes skipped: {harness.exc_str(e)}")
        return
    for r in (0, -1, -192):
        expect_value_error("ctor:BPMEvents:resolution<=0", lambda r=r: S.BPMEvents(events=[ev(0)], resolution=r))
    expect_value_error("ctor:BPMEvents:empty", lambda: S.BPMEvents(events=[], resolution=192))
    first = rng.choice([1, 5, 192])
    expect_value_error("ctor:BPMEvents:first_tick!=0:1", lambda: S.BPMEvents(events=[ev(first)], resolution=192))
    expect_value_error("ctor:BPMEvents:first_tick!=0:2", lambda: S.BPMEvents(events=[ev(first), ev(first + 10)], resolution=192))
    expect_value_error("ctor:BPMEvents:first_tick!=0:many", lambda: S.BPMEvents(events=[ev(first + 7 * i) for i in range(rng.choice([3, 9, 40]))], resolution=192))
    expect_value_error("ctor:SyncTrack:no_signature", lambda: S.SyncTrack(time_signature_events=[], bpm_events=good, anchor_events=[]))
    expect_value_error("ctor:SyncTrack:first_signature!=0", lambda: S.SyncTrack(time_signature_events=[ts(first)], bpm_events=good, anchor_events=[]))
    expect_value_error("ctor:SyncTrack:first_signature!=0", lambda: S.SyncTrack(time_signature_events=[ts(first), ts(first + 4)], bpm_events=good, anchor_events=[]))


def run_shard(shard, rec, tier, seed):
    harness.setup()
    for i in range(shard["count"]):
        rng = harness.rng_for(seed, ID, shard["name"], i)
        nt = rng.choice([1, 2, 3, 8, 20, 40]) if i % 7 != 3 else rng.choice([70, 130])
        case = gen.gen_chart(rng, "hostile" if i % 3 == 0 else "realistic", n_tempos=nt, n_tracks=rng.choice([1, 2]),
                             n_groups=rng.choice([3, 12]), n_globals=rng.choice([0, 4]), shuffle_sections=False, newline="\n")
        # canonical sync section (the generator's own may use leading zeros / other orders): re-render from truth
        case["text"] = rebuild(case, sync_lines({"tempos": case["truth"]["tempos"], "timesigs": case["truth"]["timesigs"]}))
        case["sections"] = [[n, (sync_lines(case["truth"]) if n == "SyncTrack" else b)] for n, b in case["sections"]]
        case["truth"]["anchors"] = []
        base = harness.parse(case["text"])
        if not base.ok:
            rec.diag(f"baseline rejected: {harness.exc_str(base.exc)}")
            continue
        negative_queries(rec, base.chart, case["text"])
        negative_rate_bounds(rec, base.chart, case["text"])
        if nt == 1:
            rec.cls("single_tempo_map")
        # a variant whose last tempo governs no event: used for the 'zero tempo last without governed events' class
        for op, poslab, k, text, z in faults(case):
            judge_fault(rec, op, poslab, k, text, z, case["truth"])
            if rec.full:
                break
        # zero tempo as last event with nothing after it
        T = case["truth"]["tempos"]
        far = max([0] + [t for t, _ in T] + all_event_ticks(base.chart)) + 1000
        # the healthy chart answers the same ticks first and is then dropped (a stale per-object memo would survive it)
        # (three rounds: which dead object's address the next chart's objects land on is the allocator's business; more rounds, more
        # of the histories in which a table keyed by a dead object's identity would answer for the new one)
        lines = sync_lines(case["truth"]) + [f"  {far} = B 0"]
        for rnd in range(3):
            if rnd:
                base = harness.parse(case["text"])
                if not base.ok:
                    break
            for q in (far, far + 1, far + 10**6):
                base.chart.sync_track.bpm_events.timestamp_at_tick_no_optimize_return(q)
                base.chart.sync_track.bpm_events.timestamp_at_tick(q)
            del base
            judge_fault(rec, "zero_B", "last", len(T), rebuild(case, lines), far, case["truth"])
            if rec.full:
                break
        # trailing zero tempo placed so that ONLY notes (no other event kind) lie under it
        note_ticks = sorted(g["tick"] for tr in case["truth"]["tracks"].values() for g in tr["groups"])
        others = [t for t in written_event_ticks({"timesigs": case["truth"]["timesigs"], "globals": case["truth"]["globals"],
                                                  "tracks": {k: {"groups": [], "phrases": v.get("phrases", []), "tevents": v.get("tevents", [])}
                                                             for k, v in case["truth"]["tracks"].items()}})]
        cut = max(others + [t for t, _ in T], default=0) + 1
        if note_ticks and note_ticks[-1] >= cut:
            lines = sync_lines(case["truth"]) + [f"  {cut} = B 0"]
            judge_fault(rec, "zero_B", "last", len(T), rebuild(case, lines), cut, case["truth"])
            rec.cls("zero_last:only_notes_governed")
        # trailing zero tempo placed so that ONLY THE END of one held note lies under it (the note starts before it); the held note
        # rotates through the shapes a section can write: open / chord with unequal lanes / single lane, plain, forced or tap
        key = next(iter(case["truth"]["tracks"]), None)
        if key is not None:
            import copy

            t0 = max(written_event_ticks(case["truth"]) + [t for t, _ in T]) + 5
            L = rng.choice([1, 2, 50, 4 * case["truth"]["resolution"]])
            g = dict(HELD_SHAPES[i % len(HELD_SHAPES)](L), tick=t0)
            if not case["truth"]["tracks"][key]["groups"] and g["forced"]:
                g["forced"], g["tap"] = False, True  # (the first note of a track cannot be forced)
            truth2 = copy.deepcopy(case["truth"])
            truth2["tracks"][key]["groups"].append(g)
            hdr = model.header(*key.split("/"))
            secs = [[n, (list(b) + gen.group_lines(None, g)) if n == hdr else b] for n, b in case["sections"]]
            z = t0 + rng.randint(1, L)
            judge_fault(rec, "zero_B", "last", len(T), rebuild({"sections": secs}, sync_lines(case["truth"]) + [f"  {z} = B 0"]), z, truth2)
            rec.cls("zero_last:only_a_held_note_end_governed")
        if i < 1:
            rec.sample({"tempo_events": len(T), "operators": OPS, "sync_head": sync_lines(case["truth"])[:6]})
        if rec.full:
            break
    ctor_probes(rec, harness.rng_for(seed, ID, shard["name"], "ctor"))
    for b in contracts.drain("C15"):
        rec.violation("contract", b["message"], {"ctor": "contract"}, "time-returned-for-untrusted-tick")
    if contracts.counts.get("timestamp_at_tick:returned"):
        rec.cls("contract_evaluated", contracts.counts["timestamp_at_tick:returned"])
    harness.finish(rec)


def finalize(agg, tier):
    # a constructor probe that could not even be built (public signature changed) is reported, not gated on
    skipped = {k.split(":", 1)[1]: v for k, v in agg["monitor"].items() if k.startswith("ctor_probe_skipped:")}
    for label, v in skipped.items():
        if label == "all":
            for c in required(tier):
                if c.startswith("ctor:"):
                    agg["monitor"][c] = agg["monitor"].get(c, 0) + v
        else:
            agg["monitor"][label] = agg["monitor"].get(label, 0) + v
    return {"constructor_probes_skipped": skipped}


def replay(case, rec):
    harness.setup()
    if "ctor" in case:
        import random

        ctor_probes(rec, random.Random(0))
        return
    if case["op"] in ("negative_query", "negative_rate_bound"):
        out = harness.parse(case["text"])
        if out.ok:
            negative_queries(rec, out.chart, case["text"])
            negative_rate_bounds(rec, out.chart, case["text"])
        return
    for _ in range(6 if case.get("shared") else 1):
        judge_fault(rec, case["op"], "replay", case["k"] if not case.get("shared") else case["k"] + (-(len(case["text"]) + case["k"])) % 3,
                    case["text"], case["zero_tick"], {"tracks": {}})
        if rec.violations:
            break
