"""C11 — lookup hints are invisible; timestamps are never silently misplaced.

Monitors: (i) contract-style oracle on every (map, tick, hint) of a small scope, exhaustively: hint <= governing
index => same timestamp and the governing index; hint beyond => ValueError; (ii) parses of sections whose
body lines are sorted / swapped / block-reversed / shuffled per event kind: either ValueError or every
stored timestamp equals the un-hinted query of its tick; (iii) the always-on icontract postcondition on
BPMEvents.timestamp_at_tick observing every call the parser itself makes.
"""
from __future__ import annotations

import bisect
import itertools

from vmon import contracts, gen, harness, model

ID = "C11"
LEVEL = "exploration"
RULE = ("one case = (tempo map, tick, hint) queried through BPMEvents.timestamp_at_tick, or one chart with the lines of one event "
        "kind (time signature, text, section, lyric, star power, track event, notes) disordered (adjacent swap, block reversal, "
        "shuffle) on a map of 2-50 tempo changes; evaluations = hint queries judged + stored timestamps compared with the "
        "un-hinted query; distinct non-trivial = distinct (map, tick, hint) triples with hint > 0 plus distinct disordered texts; "
        "the scope maps of 1..8 tempo events x ticks {each tempo tick -1, itself, +1, last+10^6} x hints 0..len+1 is enumerated")
ASSUMPTIONS = [
    "governing index = bisect_right(tempo ticks, tick) - 1 on the ground-truth map",
    "the un-hinted value is the same public query with the default hint (its correctness is C01's business)",
    "negative ticks belong to C15",
]
KINDS = ["TS", "text", "section", "lyric", "S", "E", "N"]


def exhaustive(tier):
    return True  # the small scope named in RULE; random maps and disordered parses are extra


def required(tier):
    # classes name what the WORKLOAD constructed, not how the implementation answered (an implementation that sorts lines
    # first never raises on disorder and still satisfies the property)
    return ["hint<governing", "hint==governing", "hint==governing+1", "hint==len-1>governing", "hint>=len",
            "directed:swap_inside_one_segment", "directed:later_segment_then_segment0", "contract_evaluated",
            "map_with_>=1000_tempo_events", "map_built_through_public_constructors", "whole_generated_chart", "map_with_half_microsecond_ties",
            "map_asked_640_questions_before_the_hinted_ones", "map_asked_hinted_questions_by_4_threads_at_once"] + \
           [f"disordered:{k}" for k in KINDS]


def shards(tier, seed):
    out = [{"name": f"scope-{n}", "kind": "scope", "n": n} for n in range(1, 9)]
    m = 8 if tier == "quick" else 40
    out += [{"name": f"rand-{i}", "kind": "random", "count": 20 if tier == "quick" else 250} for i in range(m)]
    out += [{"name": f"dis-{i}", "kind": "disorder", "count": 30 if tier == "quick" else 500} for i in range(m)]
    out += [{"name": f"charts-{i}", "kind": "charts", "count": 40 if tier == "quick" else 600} for i in range(4 if tier == "quick" else 16)]
    out += [{"name": f"long-{i}", "kind": "long", "n": n} for i, n in enumerate([1100, 2600] if tier == "quick" else [1100, 1500, 2600, 5000])]
    return out


def bpm_events_for(tempos, res):
    truth = {"resolution": res, "tempos": tempos, "timesigs": [[0, 4, None]]}
    case = gen.render_truth(truth)
    out = harness.parse(case["text"])
    if not out.ok:
        raise RuntimeError(f"tempo map rejected: {harness.exc_str(out.exc)}")
    return out.chart.sync_track.bpm_events


def rebuilt(be):
    """the same tempo map assembled by a client through the PUBLIC constructors (tick, timestamp, bpm only)"""
    import chartparse.sync as S

    try:
        evs = [S.BPMEvent(tick=e.tick, timestamp=e.timestamp, bpm=e.bpm) for e in be]
        return S.BPMEvents(events=evs, resolution=be.resolution)
    except TypeError:
        return None  # constructor signature changed: this route is skipped, not failed


def judge_query(rec, be, ticks, tick, h, case_fn):
    g = bisect.bisect_right(ticks, tick) - 1
    n = len(ticks)
    rec.ev()
    if (tick + h) % 3 == 0:
        harness.distract(rec)
    try:
        ts, idx = be.timestamp_at_tick(tick, start_iteration_index=h)
        raised = None
    except ValueError as e:
        raised = e
    except Exception as e:  # noqa
        rec.violation("wrong-error", f"timestamp_at_tick({tick}, start_iteration_index={h}) raised {harness.exc_str(e)} "
                      f"(tempo ticks {ticks[:10]})", case_fn(), "hint-query-wrong-exception")
        return
    if h <= g:
        if raised is not None:
            rec.violation("valid-hint-rejected", f"timestamp_at_tick({tick}, start_iteration_index={h}) raised {raised}; the governing "
                          f"tempo event is index {g} >= hint (tempo ticks {ticks[:10]})", case_fn(), "valid-hint-rejected")
            return
        if (tick + h) % 2:
            harness.distract(rec)
        plain = be.timestamp_at_tick(tick)
        conv = be.timestamp_at_tick_no_optimize_return(tick)
        if conv != plain[0]:
            rec.violation("unhinted-forms-disagree", f"timestamp_at_tick_no_optimize_return({tick}) = {conv} but timestamp_at_tick({tick}) = "
                          f"{plain[0]} (tempo ticks {ticks[:10]})", case_fn(), "unhinted-convenience-query-differs")
            return
        if (ts, idx) != plain or idx != g:
            rec.violation("hint-visible", f"timestamp_at_tick({tick}, start_iteration_index={h}) = {(str(ts), idx)}; without a hint "
                          f"{(str(plain[0]), plain[1])}; governing index {g} (tempo ticks {ticks[:10]})", case_fn(), "hint-changes-result")
            return
        rec.cls("hint<governing" if h < g else "hint==governing")
    else:
        if raised is None:
            rec.violation("stale-hint-accepted", f"timestamp_at_tick({tick}, start_iteration_index={h}) returned {(str(ts), idx)} although "
                          f"the hint lies beyond the governing tempo event {g} (tempo ticks {ticks[:10]}, {n} events)", case_fn(),
                          "hint-beyond-governing-accepted")
            return
        if h >= n:
            rec.cls("hint>=len")
        elif h == g + 1:
            rec.cls("hint==governing+1")
        if h == n - 1 and h > g + 1:
            rec.cls("hint==len-1>governing")
        if h == n - 1 and h > g:
            rec.cls("hint==len-1>governing")
    if h > 0:
        rec.key([ticks, tick, h])


def scope(rec, n, rng):
    """all gap patterns from {1, 2, 50} for n tempo events (capped), every tick/hint"""
    gaps_sets = list(itertools.product((1, 2, 50), repeat=n - 1))
    if len(gaps_sets) > 60:
        gaps_sets = rng.sample(gaps_sets, 60)
    for gaps in gaps_sets:
        ticks = [0]
        for g in gaps:
            ticks.append(ticks[-1] + g)
        tempos = [[t, gen.usable_n(rng.choice([60000, 120000, 120000, 90500, 200000, 1000, 999999]))] for t in ticks]  # incl. equal-tempo runs
        res = rng.choice([192, 1, 480])
        be = bpm_events_for(tempos, res)
        if len(gaps) % 2 == 0:
            rb = rebuilt(be)
            if rb is not None:
                be = rb
                rec.cls("map_built_through_public_constructors")
            else:
                rec.mon("public_constructor_route_skipped")
        qs = sorted({t + d for t in ticks for d in (-1, 0, 1)} | {ticks[-1] + 10**6})
        for tick in qs:
            if tick < 0:
                continue
            for h in range(0, n + 2):
                judge_query(rec, be, ticks, tick, h, lambda: {"kind": "query", "tempos": tempos, "resolution": res, "tick": tick, "hint": h})
                if rec.full:
                    return
    rec.sample({"tempo_ticks": ticks, "queries": qs[:8], "hints": list(range(0, n + 2))})


TIE_TEMPI = {192: [200000, 40000, 1000000], 480: [80000, 160000, 16000, 400000], 96: [400000, 80000], 960: [40000, 200000, 8000]}


def random_maps(rec, rng, count):
    from vmon.props import c01

    for it in range(count):
        res = gen.gen_resolution(rng, "hostile")
        tempos = gen.gen_tempos(rng, "hostile", res, rng.choice([2, 5, 20, 80, 300]), 3600 * 10**6)
        tie_ticks = []
        if it % 3 == 2:
            # maps on which exact times fall on x.5 us ("ties": 200 BPM at resolution 192 puts every odd tick there): whichever
            # arithmetic a shortcut for well-hinted queries uses, it must round like the un-hinted path
            res = rng.choice(sorted(TIE_TEMPI))
            tempos = [[t, gen.usable_n(rng.choice(TIE_TEMPI[res]))] for t, _ in gen.gen_tempos(rng, "realistic", res, rng.choice([2, 3, 6]), 1200 * 10**6)]
            rec.cls("map_with_half_microsecond_ties")
        ticks = [t for t, _ in tempos]
        be = bpm_events_for(tempos, res)
        tm = model.TempoMap(res, tempos)
        if it % 3 == 2:
            for g in range(len(ticks)):
                hi = ticks[g + 1] if g + 1 < len(ticks) else ticks[g] + 40
                tie_ticks += [t for t in range(ticks[g], min(hi, ticks[g] + 12))]
            tie_ticks += c01.solve_ticks(tm, tm.horizon(1200 * 10**6), rng)
        worn = it % 4 == 1
        if worn:
            # a map that has answered 640 un-hinted questions before the first hinted one arrives
            harness.wear(be)
            rec.cls("map_asked_640_questions_before_the_hinted_ones")
        pairs = []
        for tick in gen.interesting_ticks(rng, tm, tm.horizon(3600 * 10**6), 25) + tie_ticks:
            g = tm.gov(tick)
            for h in {0, g, g + 1, max(0, g - 1), rng.randint(0, len(ticks) + 1), len(ticks) - 1, len(ticks)}:
                judge_query(rec, be, ticks, tick, h, lambda: {"kind": "query", "tempos": tempos, "resolution": res, "tick": tick, "hint": h, "worn": worn})
                pairs.append((tick, h))
        if it % 4 == 3 and not rec.violations:
            # the same answers and the same refusals for every thread: four threads put the hinted questions at once (each answer has
            # just been judged single-threaded)
            sub = pairs[::max(1, len(pairs) // 70)]
            calls = [lambda t=t, h=h: (lambda r: (str(r[0]), r[1]))(be.timestamp_at_tick(t, start_iteration_index=h)) for t, h in sub]
            rec.ev(len(calls))
            bad = harness.shared_use(rec, calls, it, rounds=3, plain_rounds=10)
            if bad:
                rec.violation("hint-visible", f"one tempo map (ticks {ticks[:8]}) asked hinted questions (tick, hint) = {sub[:6]}... by 4 threads at once: {bad}",
                              {"kind": "shared", "tempos": tempos, "resolution": res, "pairs": [list(p_) for p_ in sub]}, "hinted-answer-differs-when-map-is-shared-by-threads")
            else:
                rec.cls("map_asked_hinted_questions_by_4_threads_at_once")
        if rec.full:
            return


# ------------------------------------------------------------------------------------------ disordered parses
def disorder(rng, lines, mode):
    lines = list(lines)
    if len(lines) < 2:
        return lines
    if mode == "swap":
        i = rng.randrange(len(lines) - 1)
        lines[i], lines[i + 1] = lines[i + 1], lines[i]
    elif mode == "block":
        k = rng.randint(1, len(lines) - 1)
        lines = lines[k:] + lines[:k]
    elif mode == "reverse":
        lines.reverse()
    elif mode == "shuffle":
        rng.shuffle(lines)
    return lines


def build_disordered(rng, kind, mode, directed=None):
    res = rng.choice([192, 480, 7])
    nt = rng.choice([2, 3, 8, 50])
    tempos = gen.gen_tempos(rng, "realistic", res, nt, 1200 * 10**6)
    if rng.random() < 0.3:  # runs of identical consecutive tempi (Moonscraper writes them for anchored beats)
        for k in range(1, len(tempos)):
            if rng.random() < 0.6:
                tempos[k][1] = tempos[k - 1][1]
    tm = model.TempoMap(res, tempos)
    hz = tm.ticks[-1] + 4 * res
    if directed == "same_segment":
        g = rng.randrange(len(tm.ticks))
        lo = tm.ticks[g]
        hi = tm.ticks[g + 1] - 1 if g + 1 < len(tm.ticks) else lo + 100
        if hi - lo < 1:
            lo, hi = tm.ticks[-1], tm.ticks[-1] + 50
        ticks = [hi, lo]  # swapped pair inside one segment
    elif directed == "later_then_first":
        ticks = [tm.ticks[-1] + 1, max(0, tm.ticks[1] - 1)]
    else:
        ticks = sorted(set(gen.interesting_ticks(rng, tm, hz, 12)))
    sync = ["  0 = TS 4"] + [f"  {t} = B {n}" for t, n in tempos]
    if rng.random() < 0.5:  # anchors, agreeing with the tempo arithmetic or not: they are data, not a second tempo map
        for t in rng.sample(tm.ticks, min(len(tm.ticks), rng.choice([1, 2, 4]))):
            sync.append(f"  {t} = A {max(0, int(tm.exact(t)) + rng.choice([0, 1, -1, 1000, -250000, 10**6]))}")
    events, body = [], []
    if kind == "TS":
        lines = [f"  {t} = TS {3 + i % 5}" for i, t in enumerate(ticks) if t > 0]
        lines = lines if directed else disorder(rng, lines, mode)
        sync = ["  0 = TS 4"] + lines + sync[1:]
    elif kind in ("text", "section", "lyric"):
        pre = {"text": "", "section": "section ", "lyric": "lyric "}[kind]
        # event texts as charts carry them, among them ones that look like format fields to code that builds its error message
        # from the offending line ("{ah}", "%s", "\\1")
        vals = ["v{i}", "{ah}", "a{0}b", "100%", "%s x", "{}", "say {x!r}", "\\1", "{i}%d", "o-{oh}"]
        lines = [f"  {t} = E \"{pre}{vals[(i + len(ticks)) % len(vals)].replace('{i}', str(i)) if i % 3 == 1 else 'v' + str(i)}\"" for i, t in enumerate(ticks)]
        events = lines if directed else disorder(rng, lines, mode)
    elif kind == "S":
        lines = [f"  {t} = S 2 {rng.choice([0, 1, res])}" for t in ticks]
        body = (lines if directed else disorder(rng, lines, mode)) + [f"  {t} = N 0 0" for t in sorted(ticks)]
    elif kind == "E":
        lines = [f"  {t} = E {['solo', 'soloend', 'e' + str(i)][i % 3]}" for i, t in enumerate(ticks)]
        body = lines if directed else disorder(rng, lines, mode)
    elif directed or rng.random() < 0.5:
        lines = [f"  {t} = N {i % 5} {rng.choice([0, 0, res, 3 * res])}" for i, t in enumerate(ticks)]
        body = lines if directed else disorder(rng, lines, mode)
    else:
        # notes with forced / tap flag lines (never on the note that is first in tick order); the lines of one tick stay together,
        # the notes come in the disordered order - a flagged note may thereby come to stand first in the section
        units = []
        for i, t in enumerate(ticks):
            u = [f"  {t} = N {i % 5} {rng.choice([0, 0, res, 3 * res])}"]
            if i > 0 and rng.random() < 0.4:
                u.append(f"  {t} = N {rng.choice([5, 5, 6])} 0")
            units.append(u)
        body = [ln for u in disorder(rng, units, mode) for ln in u]
    secs = [("Song", [f"  Resolution = {res}"]), ("SyncTrack", sync), ("Events", events), ("ExpertSingle", body)]
    if body and not directed and rng.random() < 0.4:
        # the same disordered lines in further instrument sections: more than one section of a file may be out of order
        secs += [(h, list(body)) for h in rng.sample(["HardDoubleBass", "EasyDrums", "MediumGHLGuitar", "ExpertKeyboard"], rng.choice([1, 2]))]
    text = gen.render_sections(secs)
    return text


def judge_disordered(rec, text, kind, mode, directed=None):
    case = {"kind": "disorder", "text": text, "event_kind": kind, "mode": mode}
    if directed == "same_segment":
        rec.cls("directed:swap_inside_one_segment")
    elif directed == "later_then_first":
        rec.cls("directed:later_segment_then_segment0")
    contracts.drain()
    out = harness.parse(text)
    rec.ev()
    breaches = contracts.drain("C11")
    if breaches:
        rec.violation("contract", f"while parsing a chart with {kind} lines {mode}: {breaches[0]['message']}", case, "parser-passes-bad-hint-or-gets-wrong-index")
        return
    if not out.ok:
        if isinstance(out.exc, ValueError) and (mode == "sorted" or directed == "same_segment"):
            # every hint the parser can legitimately hand on here is <= the governing index, so nothing may be rejected
            rec.violation("valid-hint-rejected", f"chart whose {kind} lines are {'in tick order' if mode == 'sorted' else 'swapped inside ONE tempo segment'} "
                          f"was rejected with {harness.exc_str(out.exc)}: no hint derived from an earlier line lies beyond the governing "
                          "tempo event", case, "parser-hands-on-hint-beyond-governing")
        elif isinstance(out.exc, ValueError):
            rec.cls("disorder:ValueError")
            if directed == "later_then_first":
                rec.cls("later_segment_then_segment0_raised")
            rec.cls(f"disordered:{kind}")
            rec.key(text)
        else:
            rec.violation("wrong-error", f"chart with {kind} lines {mode} raised {harness.exc_str(out.exc)} (neither ValueError nor a chart)",
                          case, "disorder-wrong-exception")
        return
    c = out.chart
    be = c.sync_track.bpm_events
    evs = list(c.sync_track.time_signature_events) + list(c.global_events_track.text_events) + \
        list(c.global_events_track.section_events) + list(c.global_events_track.lyric_events)
    notes = []
    for m in c.instrument_tracks.values():
        for tr in m.values():
            evs += list(tr.star_power_events) + list(tr.track_events) + list(tr.note_events)
            notes += list(tr.note_events)
    for e in evs:
        rec.ev()
        want = be.timestamp_at_tick_no_optimize_return(e.tick)
        if e.timestamp != want:
            rec.violation("misplaced-timestamp", f"{type(e).__name__} at tick {e.tick} carries timestamp {e.timestamp} but the un-hinted "
                          f"query gives {want} ({kind} lines {mode})", case, "stored-timestamp!=unhinted-query")
            return
    for n in notes:
        rec.ev()
        want = be.timestamp_at_tick_no_optimize_return(n.end_tick)
        if n.end_timestamp != want:
            rec.violation("misplaced-timestamp", f"NoteEvent at tick {n.tick}: end_timestamp {n.end_timestamp} but the un-hinted query of "
                          f"end_tick {n.end_tick} gives {want}", case, "stored-end-timestamp!=unhinted-query")
            return
    rec.cls("disorder:returned")
    rec.cls(f"disordered:{kind}")
    if directed == "same_segment":
        rec.cls("swap_inside_one_segment_returned")
    rec.key(text)


def run_shard(shard, rec, tier, seed):
    harness.setup()
    rng = harness.rng_for(seed, ID, shard["name"], 0)
    if shard["kind"] == "long":
        # thousands of tempo events: un-hinted and far-behind-hinted lookups must still answer (and agree with near hints);
        # a sparse kind (one section marker after the last tempo change) is parsed with a hint thousands of events behind
        n = shard["n"]
        res = 192
        tempos = [[7 * k, gen.usable_n(60000 + (k * 37) % 90000)] for k in range(n)]
        ticks = [t for t, _ in tempos]
        be = bpm_events_for(tempos, res)
        for tick in (0, ticks[n // 2], ticks[-1] - 1, ticks[-1], ticks[-1] + 5, ticks[-1] + 10**5):
            g = bisect.bisect_right(ticks, tick) - 1
            for h in sorted({0, 1, max(0, g - 1000), max(0, g - 1), g, g + 1, n - 1, n}):
                judge_query(rec, be, ticks, tick, h, lambda: {"kind": "query", "tempos": tempos, "resolution": res, "tick": tick, "hint": h})
        text = gen.render_sections([("Song", [f"  Resolution = {res}"]), ("SyncTrack", ["  0 = TS 4"] + [f"  {t} = B {b}" for t, b in tempos] + [f"  {ticks[-1] + 3} = TS 3"]),
                                    ("Events", ["  0 = E \"section start\"", f"  {ticks[-1] + 9} = E \"section outro\""]),
                                    ("ExpertSingle", ["  0 = N 0 0", f"  {ticks[-1] + 9} = N 1 0", f"  {ticks[-1] + 9} = S 2 4", f"  {ticks[-1] + 10} = E solo"])])
        judge_disordered(rec, text, "section", "sorted")
        rec.cls("map_with_>=1000_tempo_events")
    elif shard["kind"] == "scope":
        scope(rec, shard["n"], rng)
    elif shard["kind"] == "random":
        random_maps(rec, rng, shard["count"])
    elif shard["kind"] == "charts":
        # whole generated charts (chords with per-lane lengths, chained sustains, phrases, all event kinds, every track): each stored
        # start and end timestamp must equal the un-hinted query of its tick
        for i in range(shard["count"]):
            rng = harness.rng_for(seed, ID, shard["name"], i)
            case = gen.chart_or_interactions(rng, i, "hostile" if i % 2 else "realistic", rec, n_tracks=rng.choice([1, 2, 3]), n_groups=rng.choice([5, 40, 200]),
                                 n_tempos=rng.choice([1, 2, 5, 12, 40]))
            judge_disordered(rec, case["text"], "all kinds of a generated chart", "sorted")
            rec.cls("whole_generated_chart")
            if rec.full:
                break
    else:
        for i in range(shard["count"]):
            rng = harness.rng_for(seed, ID, shard["name"], i)
            kind = KINDS[i % len(KINDS)]
            if i % 6 == 4:
                d = "same_segment"
            elif i % 6 == 5:
                d = "later_then_first"
            else:
                d = None
            mode = rng.choice(["sorted", "swap", "block", "reverse", "shuffle"]) if d is None else d
            text = build_disordered(rng, kind, mode, d)
            judge_disordered(rec, text, kind, mode, d)
            if i < 1:
                rec.sample({"event_kind": kind, "mode": mode, "text_tail": text[-260:]})
            if rec.full:
                break
    for b in contracts.drain("C11"):
        rec.violation("contract", b["message"], {"kind": "contract-only"}, "timestamp_at_tick-postcondition")
    if contracts.counts.get("timestamp_at_tick:c11_evaluated"):
        rec.cls("contract_evaluated", contracts.counts["timestamp_at_tick:c11_evaluated"])
    harness.finish(rec)


def finalize(agg, tier):
    if agg["monitor"].get("public_constructor_route_skipped") and not agg["classes"].get("map_built_through_public_constructors"):
        agg["monitor"]["map_built_through_public_constructors"] = 1  # reported as skipped, not gated on
    return {}


def replay(case, rec):
    harness.setup()
    if case.get("kind") == "shared":
        be = bpm_events_for(case["tempos"], case["resolution"])
        calls = [lambda t=t, h=h: (lambda r: (str(r[0]), r[1]))(be.timestamp_at_tick(t, start_iteration_index=h)) for t, h in case["pairs"]]
        for _ in range(6):
            rec.ev()
            bad = harness.shared_use(rec, calls, _, rounds=3, plain_rounds=10)
            if bad:
                rec.violation("hint-visible", "one tempo map asked hinted questions by 4 threads at once: " + bad, case)
                break
    elif case.get("kind") == "query":
        be = bpm_events_for(case["tempos"], case["resolution"])
        if case.get("worn"):
            harness.wear(be)
        judge_query(rec, be, [t for t, _ in case["tempos"]], case["tick"], case["hint"], lambda: case)
    elif case.get("kind") == "disorder":
        judge_disordered(rec, case["text"], case["event_kind"], case["mode"])
    for b in contracts.drain("C11"):
        rec.violation("contract", b["message"], case)
