"""C18 — only documented errors escape; parsed charts always render.

Monitor: fault/mutation fuzz with an exception-type oracle (ValueError, RegexNotMatchError,
MissingRequiredField only) and a total-rendering oracle (str()/repr() of the chart, its metadata, every
track and every event). No contracts are installed here, so nothing can change what escapes.
"""
from __future__ import annotations

import os
import re

from vmon import gen, harness, model

ID = "C18"
LEVEL = "fault_enumeration"
RULE = ("one case = one text: a well-formed chart after a sequence of 1-8 faults (delete / duplicate / swap lines, move a brace or "
        "header, single-character insert / delete / substitute over digits, blanks, '= \" [ ] { } N S E B T A - .', tab, NBSP, "
        "Arabic-Indic digits, non-ASCII letters), or a text assembled from a fragment pool (known and unknown headers, braces, "
        "canonical lines of every kind with extreme values, flags on first notes, 'B 0', 'TS 4 63', 8-digit numbers, empty "
        "strings); normalised to the property's bounds (digit runs cut to 8, TS exponent < 64); evaluations = texts parsed and "
        "judged (exception class, and full rendering when a chart is returned); distinct non-trivial = distinct texts that differ "
        "from their well-formed origin")
ASSUMPTIONS = [
    "numeric tokens of at most 8 digits and time-signature exponents below 64 (the statement's bounds)",
    "allowed error classes: ValueError (and subclasses), chartparse.exceptions.RegexNotMatchError, MissingRequiredField",
]
CHARS = list("0123456789 =\"[]{}NSEBTA-.") + ["\t", "\u00a0", "\u0663", "\u0669", "\u00e9", "\u4e16", "  ", "lyric ", "section "] + \
    ["%", "%s", "%d", "{}", "{0}", "\\", "\\1", "\\g<0>", "&", "$", "^", "*", "+", "?", "(", ")", "|", ".*", "_", "e", "1e5", "0x", "'", ",",
     "\r", "\x0c", "\x00", "\u2028", "\ufeff", "\x85", "\x1c"]  # (any text is in this property's quantifier, line-boundary characters included)
FRAGMENTS = ["[Song]", "[SyncTrack]", "[Events]", "[ExpertSingle]", "[EasyDrums]", "[HardGHLBass]", "[Foo]", "[]", "[", "]", "{", "}", "{", "}",
             "  Resolution = 192", "  Resolution = 0", "  Resolution = 1", "  Resolution = 99999999", "  Resolution = x", "  Offset = 0",
             "  Player2 = bass", "  Player2 = drums", "  Player2 = \"rhythm\"", "  Name = \"x\"", "  Name = ", "  Difficulty = 99999999",
             "  0 = TS 4", "  0 = TS 4 63", "  0 = TS 0 0", "  0 = TS 99999999 63", "  5 = TS 3", "  0 = B 120000", "  0 = B 0", "  0 = B 1",
             "  0 = B 99999999", "  10 = B 60000", "  10 = B 000", "  99999999 = B 1", "  0 = A 0", "  5 = A 99999999", "  0 = E \"section a\"",
             "  0 = E \"lyric \"", "  99999999 = E \"x\"", "  0 = E \"a\"b\"", "  0 = N 0 0", "  0 = N 5 0", "  0 = N 6 0", "  0 = N 7 99999999",
             "  0 = N 7 0", "  0 = N 4 5", "  10 = N 5 0", "  10 = N 0 99999999", "  99999999 = N 3 99999999", "  0 = S 2 0", "  5 = S 2 99999999",
             "  0 = S 64 5", "  0 = E solo", "  99999999 = E soloend", "", " ", "garbage", "  0 = N 8 0", "  0 = E", "  = N 0 0",
             # text that is a format string or a pattern to code that reports or matches it carelessly
             "  0 = E \"100% {} %s\"", "  Name = \"%s %(x)s {0} {}\"", "[%s]", "[{}]", "[{0}]", "[%(x)s]", "  0 = E %s", "  %s = N 0 0", "  0 = N %d 0",
             "  0 = E \"lyric \\1 \\g<0> &\"", "  0 = E \"section .* (?i) [a-z]+ $\"", "  Genre = \"^rock$\"", "  Player2 = %s", "  Player2 = {}",
             "  0 = B 1e5", "  0 = B 120_000", "  0 = TS 4 1e1", "  1_0 = N 0 0", "  0 = N 0 +5", "[Expert.ingle]", "[ExpertSingle|Foo]", "  0 = E \"\\\"", "  0 = E \"a\\\""]


def required(tier):
    # which documented error a given bad text raises is the implementation's choice: the error classes are reported, not gated on
    return ["rejected_with_a_documented_error", "parsed_and_rendered>=1000", "origin:extremes", "parsed_under_a_selection",
            "op:delete_line", "op:duplicate_line", "op:swap_lines", "op:move_structural", "op:char_insert", "op:char_delete", "op:char_substitute",
            "origin:fragments", "origin:unfaulted", "rendered_again_after_use", "hit:Song", "hit:SyncTrack", "hit:Events", "hit:instrument"]


def shards(tier, seed):
    n = 16 if tier == "quick" else 64
    return [{"name": f"fuzz-{i}", "count": 1500 if tier == "quick" else 30000} for i in range(n)] + \
        [{"name": "batch-0", "kind": "batch", "count": 0}]


_DIG = re.compile(r"\d{9,}")
_TS = re.compile(r"(= TS \d+ )(\d+)")


def normalise(text: str) -> str:
    text = _DIG.sub(lambda m: m.group(0)[:8], text)
    return _TS.sub(lambda m: m.group(1) + (m.group(2) if int(m.group(2)) < 64 else str(int(m.group(2)) % 64)), text)


def section_of(lines, i):
    for j in range(i, -1, -1):
        ln = lines[j]
        if ln.startswith("[") and ln.endswith("]"):
            n = ln[1:-1]
            return n if n in ("Song", "SyncTrack", "Events") else "instrument"
    return None


def mutate(rng, rec, text):
    lines = text.split("\n")
    for _ in range(rng.choice([1, 1, 2, 3, 5, 8])):
        if not lines:
            break
        op = rng.choice(["delete_line", "duplicate_line", "swap_lines", "move_structural", "char_insert", "char_delete", "char_substitute",
                         "char_substitute", "char_insert", "letter_case"])
        i = rng.randrange(len(lines))
        sec = section_of(lines, i)
        if sec:
            rec.cls(f"hit:{sec}")
        rec.cls(f"op:{op}")
        if op == "delete_line":
            del lines[i]
        elif op == "duplicate_line":
            lines.insert(rng.randrange(len(lines) + 1), lines[i])
        elif op == "swap_lines":
            j = rng.randrange(len(lines))
            lines[i], lines[j] = lines[j], lines[i]
        elif op == "letter_case":
            # a character edit that keeps every letter: the case of a header, a key or a kind letter ([expertsingle], [SONG], resolution = 192, n 0 0)
            st = [k for k, ln in enumerate(lines) if ln.startswith("[")] if rng.random() < 0.7 else [i]
            k = rng.choice(st) if st else i
            ln = lines[k]
            lines[k] = rng.choice([ln.lower(), ln.upper(), ln.swapcase(), ln[:2].lower() + ln[2:], ln.title()])
        elif op == "move_structural":
            st = [k for k, ln in enumerate(lines) if ln in ("{", "}") or (ln.startswith("[") and ln.endswith("]"))]
            if st:
                k = rng.choice(st)
                ln = lines.pop(k)
                lines.insert(rng.randrange(len(lines) + 1), ln)
        else:
            ln = lines[i]
            p = rng.randrange(len(ln) + 1)
            if op == "char_insert":
                lines[i] = ln[:p] + rng.choice(CHARS) + ln[p:]
            elif op == "char_delete" and ln:
                p = min(p, len(ln) - 1)
                lines[i] = ln[:p] + ln[p + 1:]
            elif ln:
                p = min(p, len(ln) - 1)
                lines[i] = ln[:p] + rng.choice(CHARS) + ln[p + 1:]
    return "\n".join(lines)


def assemble(rng):
    out = []
    if rng.random() < 0.7:
        # skeleton with the three required sections, bodies from the pool
        for name in rng.sample(["Song", "SyncTrack", "Events", "ExpertSingle", "EasyDrums", "Foo", "expertsingle", "EXPERTDRUMS", "ExpertSingleBackup",
                                "HardDrums2x", "events"], rng.randint(3, 7)):
            out.append(f"[{name}]")
            out.append("{")
            base = {"Song": ["  Resolution = 192"], "SyncTrack": ["  0 = TS 4", "  0 = B 120000"]}.get(name, [])
            if rng.random() < 0.8:
                out.extend(base)
            for _ in range(rng.choice([0, 1, 3, 8])):
                out.append(rng.choice(FRAGMENTS))
            out.append("}")
    else:
        for _ in range(rng.randint(0, 25)):
            out.append(rng.choice(FRAGMENTS))
    return "\n".join(out) + rng.choice(["", "\n"])


def render_all(chart):
    str(chart), repr(chart)
    str(chart.metadata), repr(chart.metadata)
    st, ge = chart.sync_track, chart.global_events_track
    str(st), repr(st), str(ge), repr(ge), str(st.bpm_events), repr(st.bpm_events)
    n = 0
    for seq in (st.bpm_events, st.time_signature_events, st.anchor_events, ge.text_events, ge.section_events, ge.lyric_events):
        for e in seq:
            str(e), repr(e)
            n += 1
    for m in chart.instrument_tracks.values():
        for tr in m.values():
            str(tr), repr(tr)
            for seq in (tr.note_events, tr.star_power_events, tr.track_events):
                for e in seq:
                    str(e), repr(e)
                    n += 1
    return n


SELS = [[("GUITAR", "EXPERT")], [("GUITAR", "HARD"), ("DRUMS", "EASY")], [], [("KEYS", "MEDIUM"), ("GUITAR", "EXPERT"), ("GHL_BASS", "HARD")]]


def judge(rec, text, origin, sel=None):
    case = {"text": text, "sel": sel}
    if len(text) % 8 in (3, 6):
        # the application has silenced the library's reports (logging.disable / logger level ERROR): still a chart or a documented error
        with harness.quiet(len(text) % 8):
            out = harness.parse(text, harness.pairs(sel) if sel is not None else None)
        rec.cls("parsed_with_the_library's_reports_silenced")
    else:
        out = harness.parse(text, harness.pairs(sel) if sel is not None else None)
    if sel is not None:
        rec.cls("parsed_under_a_selection")
    rec.ev()
    if out.ok:
        try:
            if len(text) % 3 == 1:
                # rendering is not printing: with sys.stdout replaced by an object without a usable encoding (contextlib.redirect_stdout
                # into a StringIO, a GUI's stream) str() and repr() still return
                import contextlib
                import io

                with contextlib.redirect_stdout(io.StringIO()), contextlib.redirect_stderr(io.StringIO()):
                    n = render_all(out.chart)
                rec.cls("rendered_with_stdout_redirected_to_an_object_without_encoding")
            else:
                n = render_all(out.chart)
            if len(text) % 2 == 0:
                # ... also after the chart has been USED: derived attributes read and rate queries asked (documented errors allowed);
                # whatever those leave behind in the objects must still render
                use(out.chart)
                n += render_all(out.chart)
                rec.cls("rendered_again_after_use")
        except Exception as e:  # noqa
            import traceback

            tb = traceback.extract_tb(e.__traceback__)
            where = next((f"{f.filename.split('/')[-1]}:{f.name}" for f in reversed(tb) if "/chartparse/" in f.filename), "?")
            rec.violation("render-failed", f"str()/repr() of a returned chart raised {harness.exc_str(e)} in {where}", case,
                          f"render:{type(e).__name__}:{where}")
            return
        rec.cls("parsed_and_rendered")
        rec.mon("events_rendered", n)
    else:
        e = out.exc
        if isinstance(e, harness.ALLOWED_ERRORS):
            name = "ValueError" if isinstance(e, ValueError) else type(e).__name__
            rec.cls(f"error:{name}")
            rec.cls("rejected_with_a_documented_error")
            if len(text) % 4 == 2 and origin != "retry":
                # the application tries the same file again (a retry, a second worker, the next scan of the folder): arbitrary text is
                # refused with a documented error the second time as well - a refusal leaves nothing behind that lets the retry through
                # to an internal failure
                rec.cls("rejected_text_tried_again")
                judge(rec, text, "retry", sel)
        else:
            import traceback

            tb = traceback.extract_tb(e.__traceback__)
            where = next((f"{f.filename.split('/')[-1]}:{f.name}" for f in reversed(tb) if "/chartparse/" in f.filename), "?")
            rec.violation("leak", f"Chart.from_file leaked {harness.exc_str(e)} from {where}", case, f"leak:{type(e).__name__}:{where}")
            return
    rec.cls(f"origin:{origin}")
    if origin != "unfaulted":
        rec.key(text)


def use(chart):
    for inst, m in list(chart.instrument_tracks.items()):
        for diff, tr in list(m.items()):
            try:
                tr.last_note_end_timestamp, tr.header_tag
                for nt in tr.note_events[:50]:
                    nt.end_tick, nt.longest_sustain
            except Exception:  # noqa
                pass
            for args in ((), (0, 10)):
                try:
                    chart.notes_per_second(inst, diff, *args)
                except Exception:  # noqa  (what a query may raise is C16's business; here only the renderings afterwards count)
                    pass
    be = chart.sync_track.bpm_events
    for q in (0, 1, 10**6):
        try:
            be.timestamp_at_tick(q), be.timestamp_at_tick_no_optimize_return(q)
        except Exception:  # noqa
            pass


def extremes():
    """well-formed charts at the corners of the stated bounds (8-digit numbers, TS exponent 63): every event kind at ticks
    0 / 1 / 99999999 for the coarsest and finest resolutions and the slowest and fastest tempi"""
    out = []
    for res in (1, 192, 99999999):
        for n in (1, 120000, 99999999):
            for late in (1, 90000000, 99999999):
                secs = [("Song", [f"  Resolution = {res}", "  Offset = 99999999", "  Difficulty = 99999999", "  PreviewStart = 99999999"]),
                        ("SyncTrack", ["  0 = TS 4", f"  0 = B {n}", f"  {late} = TS 99999999 63", f"  {late} = A 99999999"]),
                        ("Events", ["  0 = E \"section a\"", f"  {late} = E \"lyric b\"", f"  {late} = E \"c\""]),
                        ("ExpertSingle", ["  0 = N 0 0", f"  {late} = N 7 99999999", f"  {late} = N 6 0", f"  {late} = S 2 99999999", f"  {late} = E solo"]),
                        ("EasyDrums", ["  0 = N 1 0", f"  {late} = N 0 99999999", f"  {late} = N 4 1", f"  {late} = N 5 0"])]
                out.append(gen.render_sections(secs))
    return out


def batch_validator(rec, seed) -> None:
    """A batch validator: hundreds of files read by path, most of them rejected, the exception objects KEPT for the report (their
    tracebacks keep the frames of the failed reads alive), in a process whose descriptor limit is what a service manager grants (64).
    Arbitrary text must then still either parse or be refused with a documented error - not with OSError 'too many open files'."""
    import resource
    import shutil
    import tempfile

    d = tempfile.mkdtemp(prefix="vmon-c18-batch-")
    soft, hard = resource.getrlimit(resource.RLIMIT_NOFILE)
    kept = []
    try:
        good = gen.gen_chart(harness.rng_for(seed, ID, "batch", 0), "realistic", n_tracks=1, n_groups=5, n_globals=2, newline="\n")["text"]
        bads = ["oops\n" + good, good.replace("[SyncTrack]", "[SyncTrak]"), good.replace("Resolution", "Rezolution"), good.replace("= B ", "= B 0"), "", "[Song]\n{\n"]
        paths = []
        for k, t in enumerate([good] + bads):
            p_ = os.path.join(d, f"c{k}.chart")
            with open(p_, "w", encoding="utf-8") as f:
                f.write(t)
            paths.append(p_)
        resource.setrlimit(resource.RLIMIT_NOFILE, (min(64, soft), hard))
        n_open0 = len(os.listdir("/proc/self/fd")) if os.path.isdir("/proc/self/fd") else -1
        for r in range(260):
            p_ = paths[1 + r % len(bads)]
            rec.ev()
            try:
                harness.Chart.from_filepath(p_ if r % 2 else __import__("pathlib").Path(p_))
            except harness.ALLOWED_ERRORS as e:
                kept.append(e)
                rec.cls("batch:rejected_with_a_documented_error")
            except Exception as e:  # noqa
                rec.violation("leak", f"file #{r} of a batch read by path (earlier exceptions kept by the caller, descriptor limit 64): {harness.exc_str(e)} escaped",
                              {"kind": "batch", "text": "", "r": r}, f"batch-by-path:{type(e).__name__}")
                return
            if r % 40 == 39:
                rec.ev()
                try:
                    harness.Chart.from_filepath(paths[0])
                except Exception as e:  # noqa
                    rec.violation("leak", f"after {r + 1} rejected files of a batch (exceptions kept, descriptor limit 64) a well-formed chart read by path fails with "
                                  f"{harness.exc_str(e)}", {"kind": "batch", "text": good, "r": r}, f"batch-by-path:{type(e).__name__}")
                    return
        if n_open0 >= 0:
            rec.mx("open_descriptors_gained_over_260_rejected_by_path_reads", float(len(os.listdir("/proc/self/fd")) - n_open0))
        rec.cls("batch_of_260_rejected_files_with_exceptions_kept_under_a_descriptor_limit_of_64")
    finally:
        resource.setrlimit(resource.RLIMIT_NOFILE, (soft, hard))
        kept.clear()
        shutil.rmtree(d, ignore_errors=True)


def run_shard(shard, rec, tier, seed):
    harness.setup(with_contracts=False)
    if shard.get("kind") == "batch":
        batch_validator(rec, seed)
        harness.finish(rec)
        return
    base = None
    if shard["name"].endswith("-0"):
        for text in extremes():
            judge(rec, text, "extremes")
    for i in range(shard["count"]):
        rng = harness.rng_for(seed, ID, shard["name"], i)
        r = i % 20
        if r == 0 or base is None:
            c = gen.gen_chart(rng, "hostile" if (i // 20) % 2 else "realistic", n_tracks=rng.choice([0, 1, 2]), n_groups=rng.choice([2, 8, 20, 20, 150]),
                              n_globals=rng.choice([0, 5, 40]), n_tempos=rng.choice([1, 2, 6, 6, 13, 40, 200]), newline="\n")
            # (sizes past small thresholds too: long tempo maps before the first event, long tracks, long event lists)
            if len(c["truth"]["tempos"]) >= 10:
                rec.cls("base_chart_with_10+_tempos")
            base = normalise(c["text"])
            judge(rec, base, "unfaulted")
            judge(rec, base, "unfaulted", SELS[(i // 20) % len(SELS)])
            continue
        if r < 15:
            text = normalise(mutate(rng, rec, base))
            if text == base:
                continue
            judge(rec, text, "mutated", SELS[i % len(SELS)] if i % 7 == 3 else None)
        else:
            judge(rec, normalise(assemble(rng)), "fragments")
        if i in (3, 17):
            rec.sample({"text_head": (text if r < 15 else "")[:240]})
        if rec.full:
            break
    harness.finish(rec)


def finalize(agg, tier):
    n = agg["classes"].get("parsed_and_rendered", 0)
    if n >= 1000:
        agg["classes"]["parsed_and_rendered>=1000"] = n
    tot = max(1, agg["evaluations"])
    return {"parsed_share": round(n / tot, 3)}


def replay(case, rec):
    if case.get("kind") == "batch":
        harness.setup(with_contracts=False)
        batch_validator(rec, 0)
        return
    harness.setup(with_contracts=False)
    judge(rec, case["text"], "replay", [tuple(p) for p in case["sel"]] if case.get("sel") is not None else None)
