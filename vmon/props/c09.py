"""C09 — global events are classified lyric / section / text with verbatim values.

Monitor: reference model (prefix classification, verbatim remainder) over the three public event lists
of charts parsed by the real parser; event texts from a hostile alphabet plus a directed list.
"""
from __future__ import annotations

from vmon import gen, harness, mcheck, model

ID = "C09"
LEVEL = "exploration"
RULE = ("one case = one [Events] section (0-200 quoted event lines over a hostile alphabet: quotes, blanks, tab, NBSP, U+3000, "
        "'=', brackets, braces, backslash, non-ASCII, the words lyric/section with and without the trailing blank and in "
        "upper case, empty remainders) inside a full multi-tempo chart; evaluations = per-list comparisons weighted by "
        "expected events (tick, value, file order, exactly one list); distinct non-trivial = distinct event texts that "
        "appeared in a chart whose three lists matched")
ASSUMPTIONS = [
    "lines laid out as Moonscraper writes them (two-space indent, nothing after the closing quote)",
    "a quoted text that is neither lyric/section-prefixed nor free of inner quotes is don't-care (the statement is silent): not generated",
    "ticks non-decreasing within the section (repeats allowed)",
]
DIRECTED = ["lyric x", "section x", "x", "lyric", "section", "lyric ", "section ", "lyricx", "sectionx", "Lyric x", "SECTION x",
            "lyric \"q\"", "section \"q\" r", "lyric a\"", "lyric \"", "section \"", "lyric a\" ", "section  two  spaces ", " lyric x",
            "lyric  x", "lyric\tx", "lyric lyric x", "section lyric x", "lyric section x", "a \"q\" b", "\"", "x\"", "", " ",
            "phrase_start", "lyric =", "section [x] {y}", "lyric é世", "section  ", "E \"x\"", "5 = E \"x\"",
            "lyric 5 = E \"lyric y\"", "section 5 = E \"section y\"", "section 5 = E \"lyric x", "lyric 7 = E \"section y", "section 3 = E \"x",
            "lyric 3 = E \"x\"", "section 12 = E \"lyric a\" b", "lyric  9 = E \"section q\"", "lyric x", "section　x", "lyric \\", "text \"",
            "section Solo 1", "lyric +", "lyric Hel-", "music_start", "[Events]", "{", "}", "lyric }", "section {"]


def required(tier):
    return ["kind:lyric", "kind:section", "kind:text", "inner_quote_in_lyric_or_section", "keyword_without_blank_is_text",
            "empty_remainder", ">=2_kinds_in_one_chart", "repeated_tick", "concurrent_stage", "ticks_not_in_file_order_within_one_tempo_segment",
            "long_runs_of_one_kind_then_another", "unclaimed_lines_among_the_events", "whole_generated_chart",
            "lf_and_crlf_mixed_in_one_file", "no_line_terminator_after_the_last_brace", "direct_section_entry:generator", "direct_section_entry:iterator"]


def shards(tier, seed):
    n = 16 if tier == "quick" else 48
    out = [{"name": f"ev-{i}", "count": 60 if tier == "quick" else 1200} for i in range(n)]
    return out + [{"name": f"charts-{i}", "kind": "charts", "count": 50 if tier == "quick" else 1200} for i in range(2 if tier == "quick" else 8)]


def make_case(rng, i):
    res = gen.gen_resolution(rng, "realistic")
    tempos = gen.gen_tempos(rng, "realistic", res, rng.choice([1, 2, 6, 20]), 600 * 10**6)
    tm = model.TempoMap(res, tempos)
    horizon = tm.ticks[-1] + 8 * res
    n = rng.choice([0, 1, 3, 10, 40, 200]) if i % 30 else 2500
    ticks = sorted(rng.choice([0, rng.randint(0, horizon), rng.choice(tm.ticks), rng.choice(tm.ticks) + 1]) for _ in range(n))
    if n >= 3 and rng.random() < 0.5:
        ticks[1] = ticks[0]
        ticks.sort()
    if len(tempos) == 1 and n >= 2 and i % 2:
        # one tempo segment: every hint is valid whatever the order of the lines, so "in file order" is decidable
        # for lines whose ticks DEcrease as well ("forall ticks; forall line orders")
        rng.shuffle(ticks)
    globals_, lines, texts, dontcare = [], [], [], []
    runs = gen.run_structured_kinds(rng, len(ticks)) if (len(ticks) >= 40 and i % 3 == 0) else None
    for j, t in enumerate(ticks):
        r = rng.random()
        if runs is not None and r < 0.9:
            kind, value = runs[j], f"run{j}"
            raw = gen.raw_event_text(kind, value)
        elif r < 0.3:
            raw, kind, value = gen.classify_text(rng.choice(DIRECTED))
        else:
            raw, kind, value = gen.gen_event_text(rng, hostile=r < 0.85)
        if kind == "none":
            dontcare.append(raw)  # quoted text with inner quotes and no lyric/section prefix: the statement is silent; not emitted
            continue
        lines.append(f"  {t} = E \"{raw}\"")
        texts.append((raw, kind))
        globals_.append([t, kind, value])
    truth = {"resolution": res, "tempos": tempos, "timesigs": [[0, 4, None]]}
    case = gen.render_truth(truth)
    truth["globals"] = globals_
    junk = 0
    if i % 4 == 2:
        # lines nobody claims (blank, garbage, foreign) inside [Events] and at the end of [SyncTrack]: skipped, nothing else changes
        for _ in range(rng.choice([1, 2, 5])):
            lines.insert(rng.randint(0, len(lines)), rng.choice(["", "  ", "garbage", "  5 = N 0 0", "  5 = E unquoted", "  = E \"x\""]))
            junk += 1
    secs = [(n_, b + (["", "  "] if junk else [])) if n_ == "SyncTrack" else ((n_, b) if n_ != "Events" else (n_, lines)) for n_, b in case["sections"]]
    if rng.random() < 0.3:
        rng.shuffle(secs)
    newline = {3: "\r\n", 7: "mixed"}.get(i % 8, "\n")  # "mixed": LF and CRLF endings within one file
    return {"text": gen.render_sections(secs, newline, final=i % 5 != 1), "truth": truth, "junk": junk, "sections": [[n_, b] for n_, b in secs]}, texts, ticks


def run_shard(shard, rec, tier, seed):
    harness.setup()
    if shard.get("kind") == "charts":
        mcheck.whole_charts(rec, ("C09",), seed, ID, shard["name"], shard["count"], n_globals=None)
        return harness.finish(rec)
    keep = mcheck.Keep()
    for i in range(shard["count"]):
        rng = harness.rng_for(seed, ID, shard["name"], i)
        case, texts, ticks = make_case(rng, i)
        out, ob, d = mcheck.judge(rec, ("C09",), case)
        keep.add(case)
        if d is not None and not d.of("C09") and i % 2 == 0 and not mcheck.direct_sections(rec, ("C09",), case, out):
            continue
        if d is not None and not d.of("C09"):
            if i % 8 == 7:
                rec.cls("lf_and_crlf_mixed_in_one_file")
            if i % 5 == 1:
                rec.cls("no_line_terminator_after_the_last_brace")
            kinds = set()
            for raw, kind in texts:
                rec.cls(f"kind:{kind}")
                kinds.add(kind)
                rec.key(raw)
                if kind in ("lyric", "section") and "\"" in raw:
                    rec.cls("inner_quote_in_lyric_or_section")
                if kind == "text" and (raw.startswith("lyric") or raw.startswith("section")):
                    rec.cls("keyword_without_blank_is_text")
                if raw in ("lyric ", "section "):
                    rec.cls("empty_remainder")
            if len(kinds - {"none"}) >= 2:
                rec.cls(">=2_kinds_in_one_chart")
            if len(set(ticks)) < len(ticks):
                rec.cls("repeated_tick")
            if any(a > b for a, b in zip(ticks, ticks[1:])):
                rec.cls("ticks_not_in_file_order_within_one_tempo_segment")
            ks = [k for _, k in texts if k != "none"]
            run = best = 1
            for a, b in zip(ks, ks[1:]):
                run = run + 1 if a == b else 1
                best = max(best, run)
            if best >= 17 and len(set(ks)) >= 2:
                rec.cls("long_runs_of_one_kind_then_another")
            if case.get("junk"):
                rec.cls("unclaimed_lines_among_the_events")
        if i < 2:
            rec.sample({"events_section": [ln for ln in case["text"].splitlines() if " = E " in ln][:8]})
        if rec.full:
            break
    if not rec.full:
        mcheck.threaded_stage(rec, ("C09",), keep.cases)
    harness.finish(rec)


def replay(case, rec):
    harness.setup()
    mcheck.replay_case(rec, ("C09",), case)
