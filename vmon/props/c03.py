"""C03 — sustains, end tick, end time and last-note-end are faithful to the lines.

Monitor: reference model. Exhaustive 4^5 lane/length patterns (absent / 0 / a / b per lane; all absent
=> open note with 0 / a) x flags, over multi-tempo maps so sustains end in later segments; invariants
on every NoteEvent (end >= start); tracks whose longest sustain sits on an early note; empty tracks.
"""
from __future__ import annotations

import itertools

from vmon import gen, harness, mcheck, model

ID = "C03"
LEVEL = "exploration"
RULE = ("one case = one note group (lane/length pattern x flags) inside a track of a full multi-tempo chart, or a random "
        "track; evaluations = per-note comparisons of sustain shape, longest_sustain, end_tick, end_timestamp (exact "
        "rational time of the end tick, never before the start) + per-track last_note_end_timestamp checks; distinct "
        "non-trivial = distinct (pattern, flags, a, b, flag length) groups and distinct random section bodies with >= 1 "
        "sustained note, whose observation matched")
ASSUMPTIONS = [
    "open-note line first in its tick group (any other placement is documented as undefined by the code)",
    "flag lines may carry arbitrary lengths; they must contribute nothing",
    "end-time budget = C01's: s*(0.5 us + 1 ns) for s tempo segments advanced by the end tick",
]
FLAGS = [(False, False), (True, False), (False, True), (True, True)]


def exhaustive(tier):
    return True  # the 1024 patterns x 4 flag combinations (random tracks are extra)


def required(tier):
    return ["sustain:int_equal", "sustain:int_open", "sustain:tuple_with_zero", "sustain:tuple_all_different", "orange_nonzero",
            "sustain_crosses>=2_tempo_changes", "max_end_not_on_last_note", "empty_track", "flag_length_nonzero", "track_with_S_E_only", "concurrent_stage", "ticks_around_2^31..10^12"]


def shards(tier, seed):
    variants = 8 if tier == "quick" else 48
    out = [{"name": f"patterns-{i}", "kind": "patterns", "variant": i} for i in range(variants)]
    n = 8 if tier == "quick" else 32
    per = 40 if tier == "quick" else 700
    out += [{"name": f"rand-{i}", "kind": "random", "count": per} for i in range(n)]
    return out


def pattern_groups(a: int, b: int, flag_len: int, gap: int, start: int):
    groups = []
    t = start
    for pat in itertools.product((None, 0, a, b), repeat=5):
        for forced, tap in FLAGS:
            lanes = {str(k): v for k, v in enumerate(pat) if v is not None}
            opens = [None] if lanes else [0, a]
            for op in opens:
                groups.append({"tick": t, "lanes": lanes, "open": op, "forced": forced and bool(groups), "tap": tap,
                               "flag_len": flag_len})
                t += gap
    return groups


def classes(rec, truth):
    tm = model.TempoMap(truth["resolution"], truth["tempos"])
    for k, tr in truth["tracks"].items():
        gs = tr["groups"]
        if not gs:
            rec.cls("empty_track")
            if tr.get("phrases") or tr.get("tevents"):
                rec.cls("track_with_S_E_only")
            continue
        ends = []
        for g in gs:
            if g.get("open") is not None:
                rec.cls("sustain:int_open")
                longest = g["open"]
            else:
                vals = [g["lanes"][x] for x in sorted(g["lanes"], key=int)]
                longest = max(vals)
                if len(set(vals)) == 1:
                    rec.cls("sustain:int_equal")
                else:
                    if 0 in vals:
                        rec.cls("sustain:tuple_with_zero")
                    if len(set(vals)) == len(vals):
                        rec.cls("sustain:tuple_all_different")
                if g["lanes"].get("4"):
                    rec.cls("orange_nonzero")
            if (g.get("forced") or g.get("tap")) and g.get("flag_len"):
                rec.cls("flag_length_nonzero")
            if longest and tm.gov(g["tick"] + longest) - tm.gov(g["tick"]) >= 2:
                rec.cls("sustain_crosses>=2_tempo_changes")
            ends.append(g["tick"] + longest)
        if ends and max(ends) > ends[-1]:
            rec.cls("max_end_not_on_last_note")


def judge(rec, case, keys=None, want=None):
    out, ob, d = mcheck.judge(rec, ("C03",), case, want=want)
    if d is not None and not d.of("C03") and want is None and len(case["text"]) % 3 == 0 and not mcheck.constructor_route(rec, ("C03",), case, out):
        return False
    if d is not None and not d.of("C03"):
        classes(rec, case["truth"])
        for k in keys or []:
            rec.key(k)
        return True
    return False


def run_shard(shard, rec, tier, seed):
    harness.setup()
    rng = harness.rng_for(seed, ID, shard["name"], 0)
    if shard["kind"] == "patterns":
        v = shard["variant"]
        res = rng.choice([192, 480, 7, 100])
        a = rng.choice([1, 2, res // 2 or 1, res, 5 * res])
        b = rng.choice([x for x in (1, 3, res, 3 * res, 7 * res + 1) if x != a])
        gap = rng.choice([1, 2, res // 4 or 1, res])
        flag_len = 0 if v % 2 == 0 else rng.randint(1, 999)
        groups = pattern_groups(a, b, flag_len, gap, start=rng.choice([0, 5]))
        last = groups[-1]["tick"] + max(a, b)
        # tempo changes spread so that sustains of length a/b cross one or several of them
        ticks = sorted(set([0] + [rng.randint(1, last) for _ in range(rng.choice([3, 12, 40]))]
                           + [groups[len(groups) // 2]["tick"] + k for k in (1, 2, 3)]))
        tempos = [[t, gen.usable_n(rng.choice([60000, 120000, 90500, 200000, 133333, 47001]))] for t in ticks]
        truth = {"resolution": res, "tempos": tempos, "timesigs": [[0, 4, None]],
                 "tracks": {"GUITAR/EXPERT": {"groups": groups},
                            "BASS/HARD": {"groups": []},
                            "DRUMS/EASY": {"groups": [], "phrases": [[0, 5], [9, 0]], "tevents": [[3, "solo"]]}}}
        case = gen.render_truth(truth, rng, permute_groups=v % 3 == 2)
        keys = [["pat", sorted(g["lanes"].items()), g["open"], g["forced"], g["tap"], a, b, flag_len] for g in groups]
        judge(rec, case, keys)
        rec.sample({"a": a, "b": b, "gap": gap, "flag_len": flag_len, "resolution": res, "tempo_events": len(tempos),
                    "groups": len(groups), "body_head": case["sections"][3][1][:8]})
    else:
        keep = mcheck.Keep()
        for i in range(shard["count"]):
            rng = harness.rng_for(seed, ID, shard["name"], i)
            if i % 13 == 5:
                case = gen.huge_tick_chart(rng)
                rec.cls("ticks_around_2^31..10^12")
                judge(rec, case, [case["text"]])
                continue
            if i % 17 == 6:
                case = gen.power_of_two_sustain_chart(rng)
                rec.cls("sustains_around_powers_of_two_up_to_2^27")
                judge(rec, case, [case["text"]])
                continue
            case = gen.chart_or_interactions(rng, i, "hostile" if i % 2 else "realistic", rec, n_tracks=rng.choice([1, 2, 4]),
                                 n_groups=rng.choice([0, 1, 3, 20, 100]) if i % 20 else 2500, n_tempos=rng.choice([1, 3, 8, 30]) if i % 20 else 150,
                                 n_globals=0)
            keys = [body for name, body in case["sections"] if name not in ("Song", "SyncTrack", "Events")
                    and any(" = N " in ln and not ln.rstrip().endswith(" 0") for ln in body)]
            judge(rec, case, keys, want=mcheck.all_present(case, rng) if i % 5 == 3 else None)
            keep.add(case)
            if i < 1:
                rec.sample({"text_head": case["text"][:300]})
            if rec.full:
                break
        if not rec.full:
            mcheck.threaded_stage(rec, ("C03",), keep.cases)
    harness.finish(rec)


def replay(case, rec):
    harness.setup()
    mcheck.replay_case(rec, ("C03",), case)
