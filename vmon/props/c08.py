"""C08 — tempo, time-signature and anchor lines decode to exact values.

Monitor: B/TS/A lines pushed through the REAL file parser (Chart.from_file), each at its own tick so a
whole slice of the value space is one chart; oracle = integer arithmetic (n/1000 correctly rounded,
u/4 or u/2^l, microseconds). When a chart is rejected, the offending values are located through the
public single-line route.
"""
from __future__ import annotations

from vmon import gen, harness, mcheck, model

ID = "C08"
LEVEL = "exploration"
RULE = ("one case = one sync line (B n / TS u [l] / A us, ticks of 1-12 digits, optional leading zeros) decoded by the real "
        "file parser inside a chart; evaluations = lines compared with the integer oracle; distinct non-trivial = distinct "
        "(kind, value) pairs counted per shard over disjoint slices/strata of the value space; thorough enumerates every "
        "n in 1..10^7, quick every n in 1..20000 plus every n <= 200000 whose split-sum float differs from n/1000; both tiers add "
        "13-60 digit values (around 2^53 and powers of ten) for the 'and beyond' part")
ASSUMPTIONS = [
    "sync lines use Moonscraper's layout (two-space indent, single blanks, no trailing blanks on A lines)",
    "many-digit ticks are paired with fast tempi so every time stays inside timedelta's range",
    "nearest float to n/1000 is Python's correctly rounded int/int true division",
]
S = 16  # strata for sampled values


def exhaustive(tier):
    return True  # the enumerated slice named in RULE (sampled values beyond it are extra)


def required(tier):
    return ["B:n<1000", "B:n%1000==0", "B:n>=10^7", "B:split_sum_differs", "B:n>=2^53", "TS:no_exponent", "TS:exponent", "A:anchor",
            "tick_digits>=10", "leading_zeros", "chart_without_anchors_after_chart_with_anchors", "ambient_decimal_context_lowered",
            "whole_generated_chart", "tempo_events_read_through_every_sequence_form"]


def shards(tier, seed):
    out = []
    if tier == "quick":
        for i in range(4):
            out.append({"name": f"enum-{i}", "kind": "enum", "lo": 1 + i * 5000, "hi": 5000 * (i + 1)})
        out.append({"name": "regress", "kind": "regress", "lo": 20001, "hi": 200000})
        for i in range(9):
            out.append({"name": f"sample-{i}", "kind": "sample", "stratum": i, "count": 12000, "lo": 200001})
        out.append({"name": "huge-0", "kind": "huge", "count": 6000})
        out.append({"name": "ts-0", "kind": "ts", "count": 3000})
        out.append({"name": "tshuge-0", "kind": "ts", "count": 600})
        out.append({"name": "digits-0", "kind": "digits", "count": 1500})
        out += [{"name": f"charts-{i}", "kind": "charts", "count": 60} for i in range(2)]
    else:
        step = 125000
        for i in range(10**7 // step):
            out.append({"name": f"enum-{i}", "kind": "enum", "lo": 1 + i * step, "hi": step * (i + 1)})
        for i in range(S):
            out.append({"name": f"sample-{i}", "kind": "sample", "stratum": i, "count": 40000, "lo": 10**7 + 1})
        for i in range(4):
            out.append({"name": f"huge-{i}", "kind": "huge", "count": 40000})
            out.append({"name": f"ts-{i}", "kind": "ts", "count": 20000})
            out.append({"name": f"tshuge-{i}", "kind": "ts", "count": 3000})
            out.append({"name": f"digits-{i}", "kind": "digits", "count": 10000})
        out += [{"name": f"charts-{i}", "kind": "charts", "count": 1500} for i in range(8)]
    return out


def read_forms(rec, case, out):
    """"ticks and values are preserved" however the tempo events are read: bpm_events is a sequence (len, integer and negative
    indices, slices, iteration, reversed, membership) — every read form must show the same events"""
    be = out.chart.sync_track.bpm_events
    want = [[t, n / 1000] for t, n in case["truth"]["tempos"]]

    def sig(evs):
        return [[e.tick, e.bpm] for e in evs]

    n = len(want)
    forms = {
        "iteration": lambda: sig(iter(be)), "indices": lambda: sig(be[i] for i in range(len(be))), "slice[:]": lambda: sig(be[:]),
        "slice[1:]+[0]": lambda: sig([be[0]] + list(be[1:])), "negative indices": lambda: sig(be[i - len(be)] for i in range(len(be))),
        "slice[::-1]": lambda: sig(be[::-1])[::-1], "reversed": lambda: sig(reversed(be))[::-1], "slice[-2:]": lambda: want[:-2] + sig(be[-2:]) if n >= 2 else want,
        "slice[n:]": lambda: want + sig(be[n:]), "events attribute": lambda: sig(be.events),
    }
    for name, fn in forms.items():
        rec.ev()
        try:
            got = fn()
        except Exception as e:  # noqa
            rec.violation("tempo", f"reading the {n} tempo events by {name} raised {harness.exc_str(e)}", {"text": case["text"], "truth": case["truth"]},
                          f"read-form:{name}:raised")
            return
        if got != want:
            rec.violation("tempo", f"the tempo events read by {name} differ from the written ones: {model._first_diff(want, got)}",
                          {"text": case["text"], "truth": case["truth"]}, f"read-form:{name}:differs")
            return
    rec.cls("tempo_events_read_through_every_sequence_form")


def split_sum_differs(n: int) -> bool:
    return (n // 1000) + (n % 1000) / 1000 != n / 1000


def b_classes(rec, n):
    if n < 1000:
        rec.cls("B:n<1000")
    if n % 1000 == 0:
        rec.cls("B:n%1000==0")
    if n >= 10**7:
        rec.cls("B:n>=10^7")
    if split_sum_differs(n):
        rec.cls("B:split_sum_differs")


def locate_rejected(ns, res=192):
    import chartparse.sync as s

    bad = []
    for n in ns:
        try:
            d = s.BPMEvent.ParsedData.from_chart_line(f"  0 = B {n}")
            e = s.BPMEvent.from_parsed_data(d, None, res)
            if e.bpm != n / 1000:
                bad.append((n, f"decoded {e.bpm!r}"))
        except Exception as e:  # noqa
            bad.append((n, harness.exc_str(e)))
    return bad


def tempo_chart(ns, res=192, tick_fmt=None):
    tempos = [[i, n] for i, n in enumerate(ns)]
    truth = {"resolution": res, "tempos": tempos, "timesigs": [[0, 4, None]]}
    return gen.render_truth(truth)


def judge_tempos(rec, ns, name):
    case = tempo_chart(ns)
    out = harness.parse(case["text"])
    rec.ev(len(ns))
    for n in ns:
        b_classes(rec, n)
    small = {"ns_head": ns[:5], "count": len(ns), "shard": name}
    if not out.ok:
        bad = locate_rejected(ns)
        if bad:
            for n, why in bad[:3]:
                rec.violation("tempo-rejected", f"'B {n}' ({n / 1000} BPM, a positive integer number of thousandths) is not decoded: {why}; "
                              f"{len(bad)} of the {len(ns)} values {ns[0]}..{ns[-1]} fail (first: {[b[0] for b in bad[:8]]})",
                              {"kind": "tempos", "ns": [n]}, "tempo-value-rejected-or-misdecoded")
        else:
            rec.violation("tempo-chart-rejected", f"chart of {len(ns)} B lines rejected with {harness.exc_str(out.exc)} although every "
                          "value is accepted in isolation", {"kind": "tempos", "ns": ns[:2000]}, "tempo-chart-rejected")
        return
    be = out.chart.sync_track.bpm_events
    got = [(e.tick, e.bpm) for e in be]
    exp = [(i, n / 1000) for i, n in enumerate(ns)]
    if got != exp:
        k = next((i for i, (a, b) in enumerate(zip(exp, got)) if a != b), min(len(exp), len(got)))
        n = ns[k] if k < len(ns) else None
        rec.violation("tempo-misdecoded", f"B line {k} ('{k} = B {n}'): expected (tick, bpm) {exp[k] if k < len(exp) else None}, "
                      f"observed {got[k] if k < len(got) else None}; {len(exp)} lines expected, {len(got)} tempo events observed",
                      {"kind": "tempos", "ns": ns[max(0, k - 1):k + 2]}, "tempo-value-rejected-or-misdecoded")
    else:
        rec.disjoint += len(set(ns))
        rec.sample({"B": ns[:4], "decoded": [b for _, b in got[:4]]})


def ts_case(rng, count, huge=False):
    """TS lines (with and without exponent) and A lines at increasing ticks; fast tempo; many-digit ticks."""
    res = 960
    t = 0
    timesigs, anchors = [], []
    for i in range(count):
        u = i % 65 if i < 200 else rng.choice([rng.randint(0, 64), rng.randint(0, 10**9), 10**9, 4, 0, rng.randint(10, 99), rng.randint(100, 9999)]
                                                  + ([rng.randint(10**20, 10**40)] if huge else []))
        e = [None] + list(range(17)) + [17, 23, 24, 30, 31, 32, 33, 52, 53, 62, 63]  # every exponent Moonscraper writes, and the rest up to 63
        ex = e[i % len(e)] if i < 400 else rng.choice(e)
        timesigs.append([t, u, ex])
        if i % 3 == 0:
            anchors.append([t, rng.choice([0, 1, 999999, 10**6, rng.randint(0, 10**13), 10**13, rng.randint(10**13, 10**16)])])
        t += rng.choice([1, 1, 2, 7, 1000])
    md = {"resolution": res, "offset": rng.choice([0, 2, 30, 99999]), "preview_start": rng.choice([0, 15]), "difficulty": rng.choice([0, 4])}
    return {"resolution": res, "metadata": md, "tempos": [[0, 10**9]], "timesigs": timesigs, "anchors": anchors}


def digits_case(rng, count):
    """ticks of 1..12 digits and values with leading zeros, B/TS/A together; tempi fast enough for any tick."""
    res = 10000
    lines = []
    tempos, timesigs, anchors = [[0, 10**9]], [[0, 4, None]], []
    lines = ["  0 = TS 4", "  0 = B 1000000000"]
    t = 0
    for i in range(count):
        digits = 1 + (i * 12) // count
        lo = max(t + 1, 10 ** (digits - 1))
        t = rng.randint(lo, max(lo, min(10**digits - 1, lo + 10**digits // count)))
        z = "0" * rng.choice([0, 0, 1, 3])
        r = i % 3
        if r == 0:
            n = rng.choice([rng.randint(10**8, 10**9), 10**9, 999999999, rng.randint(10**8, 10**12)])
            tempos.append([t, n])
            lines.append(f"  {z}{t} = B {z}{n}")
        elif r == 1:
            u, e = rng.randint(0, 10**6), rng.choice([None, 0, 5, 16])
            timesigs.append([t, u, e])
            lines.append(f"  {z}{t} = TS {z}{u}" + ("" if e is None else f" {z}{e}"))
        else:
            a = rng.randint(0, 10**13)
            anchors.append([t, a])
            lines.append(f"  {z}{t} = A {z}{a}")
    truth = {"resolution": res, "metadata": {"resolution": res}, "tempos": tempos, "timesigs": timesigs, "anchors": anchors,
             "globals": [], "tracks": {}}
    text = gen.render_sections([("Song", [f"  Resolution = {res}"]), ("SyncTrack", lines), ("Events", [])])
    return {"text": text, "truth": truth}


def judge_model(rec, case, classes):
    out, ob, d = mcheck.judge(rec, ("C08",), case)
    if d is not None and not d.of("C08"):
        t = case["truth"]
        rec.disjoint += len({("TS", u, e) for _, u, e in t["timesigs"]}) + len({("A", a) for _, a in t["anchors"]})
        for c, k in classes.items():
            rec.cls(c, k)
        rec.sample({"TS": t["timesigs"][:4], "A": t["anchors"][:3], "text_head": case["text"][:200]})


def run_shard(shard, rec, tier, seed):
    harness.setup(prescreen_tempo=False)
    rng = harness.rng_for(seed, ID, shard["name"], 0)
    k = shard["kind"]
    if shard["name"] in ("enum-1", "sample-1", "ts-0"):
        import decimal  # the caller's numeric context is not the library's to depend on

        decimal.getcontext().prec = 4
        decimal.getcontext().rounding = decimal.ROUND_DOWN
        rec.cls("ambient_decimal_context_lowered")
    if k == "charts":
        from vmon import mcheck

        mcheck.whole_charts(rec, ("C08",), seed, ID, shard["name"], shard["count"], on_ok=lambda case, out: read_forms(rec, case, out))
        return harness.finish(rec)
    if k == "enum":
        ns = list(range(shard["lo"], shard["hi"] + 1))
        for i in range(0, len(ns), 25000):
            judge_tempos(rec, ns[i:i + 25000], shard["name"])
    elif k == "regress":
        ns = [n for n in range(shard["lo"], shard["hi"] + 1) if split_sum_differs(n)]
        judge_tempos(rec, ns, shard["name"])
    elif k == "sample":
        ns = set()
        st = shard["stratum"]
        while len(ns) < shard["count"]:
            n = int(10 ** rng.uniform(5.3 if shard["lo"] < 10**6 else 7, 12))
            n = n - n % S + st
            if n >= shard["lo"]:
                ns.add(n)
        judge_tempos(rec, sorted(ns, key=lambda _: rng.random()), shard["name"])
    elif k == "huge":
        # "and beyond": 13..60-digit values, around 2^53 (where int -> float conversion starts to round) and powers of ten
        ns = set()
        for e in range(50, 70):
            for d in (-3, -1, 0, 1, 2, 3, 5, 7):
                ns.add(2**e + d)
        for e in range(13, 60):
            ns.update({10**e, 10**e + 1, 10**e - 1, 3 * 10**e + 995})
        while len(ns) < shard["count"]:
            digits = rng.randint(13, 60)
            ns.add(rng.randint(10 ** (digits - 1), 10**digits - 1))
        ns = sorted(ns, key=lambda _: rng.random())
        for n in ns:
            if n >= 2**53:
                rec.cls("B:n>=2^53")
        judge_tempos(rec, ns, shard["name"])
    elif k == "ts":
        # three charts one after the other: many anchors, other anchors, no anchors (each chart's events are its own lines')
        for part, cnt in enumerate((shard["count"], shard["count"] // 3, 60)):
            truth = ts_case(rng, cnt, huge=shard["name"].startswith("tshuge"))
            if part == 2:
                truth["anchors"] = []
                rec.cls("chart_without_anchors_after_chart_with_anchors")
            case = gen.render_truth(truth)
            judge_model(rec, case, {"TS:no_exponent": sum(1 for x in truth["timesigs"] if x[2] is None),
                                    "TS:exponent": sum(1 for x in truth["timesigs"] if x[2] is not None),
                                    "A:anchor": len(truth["anchors"])})
    elif k == "digits":
        case = digits_case(rng, shard["count"])
        judge_model(rec, case, {"tick_digits>=10": sum(1 for x in case["truth"]["tempos"] if x[0] >= 10**9),
                                "leading_zeros": case["text"].count(" 0")})
    harness.finish(rec)


def replay(case, rec):
    harness.setup(prescreen_tempo=False)
    if case.get("kind") == "tempos":
        judge_tempos(rec, case["ns"], "replay")
    else:
        res = mcheck.replay_case(rec, ("C08",), case)
        if res and res[0].ok and not rec.violations:
            read_forms(rec, case, res[0])
