"""C04 — strum / HOPO / tap state follows the natural-HOPO rule and flags.

Monitor: reference model over the full decision table. Per resolution, for each distance in
{1, thr-1, thr, thr+1, thr+2, res, 10*res} and each (tap, forced), one track walks a de Bruijn cycle
B(32,2): every ordered pair of the 32 lane combinations (self pairs included) exactly once.
"""
from __future__ import annotations

from vmon import gen, harness, mcheck, model

ID = "C04"
LEVEL = "exploration"
RULE = ("one case = one decision-table cell (resolution, distance, ordered pair of lane combinations incl. open, tap, forced) "
        "realised as two consecutive notes of a track in a full chart; evaluations = per-note hopo_state comparisons; "
        "distinct non-trivial = distinct cells whose observation matched (all 1024 pairs x distances x 4 flag combinations "
        "per resolution); plus first-note cases (32 notes x tap) and random tracks")
ASSUMPTIONS = [
    "threshold = nearest integer to resolution/3 = (2*res+3)//6 (resolution/3 is never a tie)",
    "a forced first note is not generated: the code rejects it and the statement gives the first note no forced reading",
]
COMBOS = [[]] + [[k for k in range(5) if m >> k & 1] for m in range(1, 32)]
QUICK_RES = [1, 2, 3, 4, 5, 7, 100, 192, 480]


def exhaustive(tier):
    return True  # the decision table per listed resolution


def required(tier):
    return ["table_complete", "res%3==1", "res%3==2", "dist:thr", "dist:thr+1", "first_note_tap", "first_note_strum", "track_with_thousands_of_notes",
            "tempo_segment_without_notes_between_two_notes"]


def resolutions(tier, seed):
    if tier == "quick":
        return QUICK_RES
    import random

    rng = random.Random(f"{seed}/C04/res")
    return sorted(set(list(range(1, 65)) + [96, 100, 120, 192, 240, 384, 480, 960, 1000] + [rng.randint(65, 10**5) for _ in range(30)]))


def shards(tier, seed):
    out = [{"name": f"res-{r}", "kind": "table", "res": r} for r in resolutions(tier, seed)]
    n = 4 if tier == "quick" else 16
    out += [{"name": f"rand-{i}", "kind": "random", "count": 40 if tier == "quick" else 600} for i in range(n)]
    return out


def de_bruijn(k: int, n: int) -> list[int]:
    a = [0] * k * n
    seq: list[int] = []

    def db(t, p):
        if t > n:
            if n % p == 0:
                seq.extend(a[1:p + 1])
        else:
            a[t] = a[t - p]
            db(t + 1, p)
            for j in range(a[t - p] + 1, k):
                a[t] = j
                db(t + 1, t)

    db(1, 1)
    return seq


CYCLE = de_bruijn(32, 2)  # length 1024, every ordered pair once (cyclically)


def distances(res: int) -> list[int]:
    thr = model.hopo_threshold(res)
    return sorted({d for d in (1, thr - 1, thr, thr + 1, thr + 2, res, 10 * res) if d >= 1})


def table_track(res: int, dist: int, tap: bool, forced: bool):
    seq = CYCLE + [CYCLE[0]]  # 1025 notes: first is the unforced start, then 1024 edges
    groups = []
    t = 0
    for i, c in enumerate(seq):
        lanes = COMBOS[c]
        groups.append({"tick": t, "lanes": {str(k): 0 for k in lanes}, "open": 0 if not lanes else None,
                       "forced": forced and i > 0, "tap": tap and i > 0})
        t += dist
    return {"groups": groups}


def run_table(rec, res: int, rng):
    thr = model.hopo_threshold(res)
    ds = distances(res)
    cells = 0
    for dist in ds:
        tracks = {}
        for j, (tap, forced) in enumerate([(False, False), (False, True), (True, False), (True, True)]):
            inst, diff = model.ALL_PAIRS[(j * 9 + dist) % 40]
            while f"{inst}/{diff}" in tracks:
                inst, diff = model.ALL_PAIRS[(model.ALL_PAIRS.index((inst, diff)) + 1) % 40]
            tracks[f"{inst}/{diff}"] = table_track(res, dist, tap, forced)
        # first-note cases: every combination as the only/first note, with and without tap
        # the tempo map is irrelevant to the rule and therefore busy: markers on note ticks, single markers between two notes, and
        # (where two ticks fit) PAIRS of markers between two consecutive notes, i.e. tempo segments that contain no note at all
        tempos = [[0, gen.usable_n(120000)], [max(1, 3 * dist), gen.usable_n(177500)]]
        for k in range(1, 41):
            base = (3 + 25 * k) * dist
            if dist >= 3:
                tempos += [[base + 1, gen.usable_n(90000 + 1500 * k)], [base + 2, gen.usable_n(200000 - 1100 * k)]]
            else:
                tempos += [[base, gen.usable_n(90000 + 1500 * k)], [base + dist, gen.usable_n(200000 - 1100 * k)]]
        truth = {"resolution": res, "tempos": tempos, "timesigs": [[0, 4, None]], "tracks": tracks}
        if dist >= 3:
            rec.cls("tempo_segment_without_notes_between_two_notes")
        case = gen.render_truth(truth, rng, permute_groups=True)
        out, ob, d = mcheck.judge(rec, ("C04",), case)
        if d is not None and not d.of("C04") and not mcheck.constructor_route(rec, ("C04",), case, out, max_notes=1025):
            return
        if d is not None and not d.of("C04"):
            cells += 1024 * 4
            rec.disjoint += 1024 * 4
            name = "thr" if dist == thr else "thr+1" if dist == thr + 1 else "thr-1" if dist == thr - 1 else "other"
            rec.cls(f"dist:{name}")
        if rec.full:
            return
    # first notes
    tracks = {}
    for c in range(32):
        for tap in (False, True):
            inst, diff = model.ALL_PAIRS[(c + 32 * tap) % 40]
            key = f"{inst}/{diff}"
            if key in tracks:
                continue
            lanes = COMBOS[c]
            tracks[key] = {"groups": [{"tick": c, "lanes": {str(k): 0 for k in lanes}, "open": 0 if not lanes else None,
                                       "forced": False, "tap": tap}]}
            rec.cls("first_note_tap" if tap else "first_note_strum")
    truth = {"resolution": res, "tempos": [[0, gen.usable_n(120000)]], "timesigs": [[0, 4, None]], "tracks": tracks}
    mcheck.judge(rec, ("C04",), gen.render_truth(truth))
    rec.cls(f"res%3=={res % 3}")
    if cells == 1024 * 4 * len(ds):
        rec.cls("table_complete_resolutions")
    rec.into("resolutions", res)
    rec.sample({"resolution": res, "threshold": thr, "distances": ds, "cells_checked": cells})


def run_shard(shard, rec, tier, seed):
    harness.setup()
    rng = harness.rng_for(seed, ID, shard["name"], 0)
    if shard["kind"] == "table":
        if shard["res"] % 2 == 0:
            # a client used the public interval helper itself before parsing, with numbers that EQUAL the resolution without being the
            # same kind of number (200.0, a bool for resolution 1): nothing it does there may change what the parser later decides
            try:
                import chartparse.tick as T

                for nd in list(T.NoteDuration):
                    for r_ in (float(shard["res"]), shard["res"]):
                        try:
                            T.note_duration_to_ticks(r_, nd)
                        except Exception:  # noqa
                            pass
                rec.cls("public_interval_helper_called_with_equal_float_before_parsing")
            except Exception as e:  # noqa
                rec.diag(f"helper pre-call skipped: {e}")
        run_table(rec, shard["res"], rng)
        rec.mon("tables_requested")
    else:
        for i in range(shard["count"]):
            rng = harness.rng_for(seed, ID, shard["name"], i)
            case = gen.chart_or_interactions(rng, i, "hostile" if i % 2 else "realistic", rec, n_tracks=rng.choice([1, 2]),
                                 n_groups=rng.choice([2, 10, 60, 200]) if i % 20 != 1 else rng.choice([3000, 4500, 9000]), n_globals=0, n_tempos=rng.choice([1, 2, 2, 9, 40]))
            if i % 20 == 1:
                rec.cls("track_with_thousands_of_notes")
            out, ob, d = mcheck.judge(rec, ("C04",), case)
            if d is not None and not d.of("C04") and i % 3 == 0 and not mcheck.constructor_route(rec, ("C04",), case, out):
                continue
            if d is not None and not d.of("C04"):
                rec.key(case["text"])
            if rec.full:
                break
    harness.finish(rec)


def finalize(agg, tier):
    done = agg["classes"].get("table_complete_resolutions", 0)
    asked = agg["monitor"].get("tables_requested", 0)
    if asked and done == asked:
        agg["classes"]["table_complete"] = done
    return {"resolutions_with_complete_table": done, "resolutions_requested": asked}


def replay(case, rec):
    harness.setup()
    mcheck.replay_case(rec, ("C04",), case)
