"""C07 — instrument-section lines are recognised and decoded exactly.

Monitor: three-valued hand-written recogniser (vmon.recog.instrument_line: must-accept / must-reject /
don't-care) against the three public from_chart_line recognisers on canonical lines (1-40 digits,
leading zeros, blank/tab padding), lines of every other kind, and systematic single-edit near-misses;
and the same lines inside parsed sections (star-power and track-event lists must be exactly the
accepted S/E lines, in order).
"""
from __future__ import annotations

from vmon import gen, harness, mcheck, model, recog

ID = "C07"
LEVEL = "exploration"
RULE = ("one case = one line string offered to the three public recognisers NoteEvent/StarPowerEvent/TrackEvent"
        ".ParsedData.from_chart_line (3 evaluations per line with a definite oracle verdict) or one instrument section parsed "
        "inside a full chart (S and E lists compared with the oracle-accepted lines); lines = canonical N/S/E lines with "
        "1-40 digit ticks/lengths, leading zeros and blank/tab padding, canonical lines of all other kinds, garbage, and "
        "every single-character delete/insert/substitute near-miss over a small alphabet; distinct non-trivial = distinct "
        "line strings with a must-accept or must-reject verdict (don't-care lines are generated but neither asserted nor counted)")
ASSUMPTIONS = [
    "language-level claim decided on generated strings only (no automata inclusion: other technique family)",
    "don't-care: non-ASCII digits/whitespace, blank variants between tokens, lower-case kind letters, E with empty word",
]
ALPHABET = list("0123456789 =NSEBTA\t-x\"27.") + ["  "]
OTHER_KIND_LINES = ["  0 = B 120000", "  0 = TS 4", "  0 = TS 4 3", "  0 = A 500000", "  5 = E \"section Intro\"", "  5 = E \"lyric la\"",
                    "  5 = E \"two words\"", "  Resolution = 192", "  Name = \"x\"", "  Player2 = bass", "[ExpertSingle]", "{ ", " }", "",
                    " ", "\t", "garbage", "5", "5 =", "5 = N", "= N 0 0", "5 N 0 0", "5 = N 0", "5 = S 2", "5 = N 0 0 0", "5 = S 2 0 0",
                    "5 = E two words", "5 = E a b c", "5 = S 64 10", "5 = S 0 10", "5 = S 1 10", "5 = S 22 10", "5 = S 3 10", "5 = N 8 0",
                    "5 = N 9 0", "5 = N 10 0", "5 = N 99 0", "5 = N -1 0", "-5 = N 0 0", "5 = N 0 -1", "5.0 = N 0 0", "5 = N 0 1.5",
                    "x = N 0 0", "5 = N x 0", "5 = N 0 x", "5 = X 0 0", "5 = NN 0 0", "5 = N 0 0 = N 0 0", "5 = S 2 x", "5 = S x 3",
                    "5 == N 0 0", "5 : N 0 0", "N 0 0", "5 = 0 0", "0x5 = N 0 0", "5 = N 0 0x1", "5 = N 0 1e3", "+5 = N 0 0", "5 = N +1 0",
                    "5_0 = N 0 0", "5 = N 0 1_0", "5,0 = N 0 0"]


def required(tier):
    return ["accept:N:digits1", "accept:N:digits>=20", "accept:N:digits40", "accept:S:digits40", "accept:E", "accept:padded",
            "accept:leading_zeros", "reject:other_kind", "reject:S_index", "reject:N_index", "reject:E_multiword",
            "nearmiss:accept", "nearmiss:reject", "dontcare", "section_route", "line_text_shared_with_events_section", "accept:line_longer_than_128_chars",
            "section_without_notes:E", "section_without_notes:S", "no_line_terminator_after_the_last_brace", "direct_section_entry:generator"]


def shards(tier, seed):
    n = 16 if tier == "quick" else 48
    return [{"name": f"lines-{i}", "bases": 40 if tier == "quick" else 900, "sections": 12 if tier == "quick" else 200} for i in range(n)]


def digits(rng, k=None):
    k = k or rng.choice([1, 1, 2, 3, 5, 8, 12, 20, 33, 40, 40, 71, 100])
    s = "".join(rng.choice("0123456789") for _ in range(k))
    return s


def canonical(rng):
    kind = rng.choice("NNNSE")
    t, ln = digits(rng), digits(rng)
    pad_l = rng.choice(["  ", "  ", "", " ", "\t", "    ", " \t ", " " * 140, "\t" * 70 + " " * 70])
    pad_r = rng.choice(["", "", " ", "  ", "\t", " \t", " " * 200])
    if kind == "N":
        core = f"{t} = N {rng.randrange(8)} {ln}"
    elif kind == "S":
        core = f"{t} = S 2 {ln}"
    else:
        core = f"{t} = E {gen.gen_word(rng)}"
    return pad_l + core + pad_r


def near_misses(rng, line, limit=None):
    out = []
    for i in range(len(line) + 1):
        if i < len(line):
            out.append(line[:i] + line[i + 1:])
            for c in rng.sample(ALPHABET, 4):
                out.append(line[:i] + c + line[i + 1:])
        for c in rng.sample(ALPHABET, 3):
            out.append(line[:i] + c + line[i:])
    if limit and len(out) > limit:
        out = rng.sample(out, limit)
    return out


RECS = None


def recognisers():
    global RECS
    if RECS is None:
        import chartparse.instrument as I

        RECS = {"N": I.NoteEvent.ParsedData.from_chart_line, "S": I.StarPowerEvent.ParsedData.from_chart_line,
                "E": I.TrackEvent.ParsedData.from_chart_line}
    return RECS


def decode(kind, d):
    if kind == "N":
        return (d.tick, d.note_track_index.value, d.sustain)
    if kind == "S":
        return (d.tick, d.sustain)
    return (d.tick, d.value)


def judge_line(rec, line, seen, origin):
    v = recog.instrument_line(line)
    if v[0] == "dontcare":
        rec.cls("dontcare")
        return
    if line in seen:
        return
    seen.add(line)
    for kind, fn in recognisers().items():
        rec.ev()
        try:
            got = decode(kind, fn(line))
        except Exception:  # noqa: a recogniser that raises produced no datum
            got = None
        if v[0] == "accept" and v[1] == kind:
            if got != tuple(v[2:]):
                rec.violation("must-accept", f"{kind} recogniser on {line!r}: expected datum {tuple(v[2:])}, "
                              f"{'no datum (rejected)' if got is None else 'decoded ' + repr(got)}", {"line": line},
                              f"must-accept:{kind}:{'rejected' if got is None else 'misdecoded'}")
        elif got is not None:
            rec.violation("must-reject", f"{kind} recogniser accepted {line!r} as {got}; the oracle says "
                          f"{'it is a ' + v[1] + ' line' if v[0] == 'accept' else 'no N/S/E line has this shape'}",
                          {"line": line}, f"must-reject:{kind}")
    rec.key(line)
    if origin == "nearmiss":
        rec.cls(f"nearmiss:{v[0]}")
    if v[0] == "accept":
        rec.cls(f"accept:{v[1]}")
        if len(line) > 128:
            rec.cls("accept:line_longer_than_128_chars")
        core = line.strip(" \t")
        nd = len(core.split(" ")[0])
        if v[1] in "NS":
            nd = max(nd, len(core.split(" ")[-1]))
            if nd == 1:
                rec.cls(f"accept:{v[1]}:digits1")
            if nd >= 20:
                rec.cls(f"accept:{v[1]}:digits>=20")
            if nd == 40:
                rec.cls(f"accept:{v[1]}:digits40")
        if core != line[2:] or not line.startswith("  "):
            rec.cls("accept:padded")
        if core[0] == "0" and len(core.split(" ")[0]) > 1:
            rec.cls("accept:leading_zeros")
    else:
        toks = line.split()
        if origin == "other":
            rec.cls("reject:other_kind")
        if len(toks) >= 4 and toks[2] == "S" and toks[3] != "2":
            rec.cls("reject:S_index")
        if len(toks) >= 4 and toks[2] == "N" and toks[3] not in list("01234567"):
            rec.cls("reject:N_index")
        if len(toks) >= 5 and toks[2] == "E":
            rec.cls("reject:E_multiword")


def extra(p, kind):
    # "decoded as a lane/flag datum with exactly those integers": the lane index is visible as the note's lanes, the length as
    # its sustain — a track that decodes the line correctly and then alters the integers still fails the statement
    return (p == "C03" and kind in ("sustain", "longest", "end_tick")) or (p == "C02" and kind == "lanes")


def section_route(rec, rng, pool_reject):
    """a hostile, padded chart + must-reject lines sprinkled into its instrument sections"""
    case = gen.gen_chart(rng, "hostile", n_tracks=rng.choice([1, 2]), n_groups=rng.choice([3, 20]), pad=rng.random() < 0.5, n_globals=0,
                         shuffle_sections=rng.random() < 0.5)
    secs = []
    shared = []
    for name, body in case["sections"]:
        if name not in ("Song", "SyncTrack", "Events"):
            body = list(body)
            # a track event whose word is a quoted, blank-free string: the very same line text is also a valid global
            # text event, so it is offered to the [Events] section of the same chart as well (shared line text)
            t = rng.randint(0, 10**6)
            w = rng.choice(["\"solo\"", "\"x\"", "\"lyric\"", "\"section\"", "\"\""])
            line = f"  {t} = E {w}"
            key = [k for k in case["truth"]["tracks"] if model.header(*k.split("/")) == name][0]
            te = case["truth"]["tracks"][key]["tevents"]
            if not te or te[-1][0] <= t:
                te.append([t, w])
                body.append(line)
                shared.append((t, line, w[1:-1]))
            tr = case["truth"]["tracks"][key]
            t2 = max([t] + [p[0] for p in tr["phrases"]] + [e[0] for e in tr["tevents"]]) + rng.randint(1, 9)
            lp, rp = rng.choice([" " * 150, "\t" * 130, "  "]), rng.choice([" " * 180, "", "\t" * 140])
            tr["phrases"].append([t2, 7])
            body.append(f"{lp}{t2} = S 2 {'0' * 120}7{rp}")
            tr["tevents"].append([t2 + 1, "w" * 150])
            body.append(f"{lp}{t2 + 1} = E {'w' * 150}{rp}")
            for _ in range(rng.choice([0, 3, 10, 10, 75, 140])):
                ln = rng.choice(pool_reject)
                if ln not in ("{", "}"):
                    body.insert(rng.randint(0, len(body)), ln)
        secs.append((name, body))
    # a section without any note: only track events, only phrases, or both (solo markers copied to a difficulty not charted yet)
    free = [pr for pr in model.ALL_PAIRS if f"{pr[0]}/{pr[1]}" not in case["truth"]["tracks"]]
    if free and rng.random() < 0.5:
        i_, d_ = rng.choice(free)
        kind = rng.choice(["E", "S", "ES"])
        ticks = sorted(rng.sample(range(0, 5000), rng.choice([1, 2, 6])))
        te = [[t, rng.choice(["solo", "soloend", "ENABLE_CHART_DYNAMICS", gen.gen_word(rng)])] for t in ticks] if "E" in kind else []
        ph = [[t, rng.choice([0, 1, 96, 768])] for t in ticks] if "S" in kind else []
        case["truth"]["tracks"][f"{i_}/{d_}"] = {"groups": [], "phrases": ph, "tevents": te}
        body = [(t, 1, f"  {t} = S 2 {ln}") for t, ln in ph] + [(t, 2, f"  {t} = E {w}") for t, w in te]
        body.sort(key=lambda x: (x[0], x[1]))
        secs.insert(rng.randint(3, len(secs)) if len(secs) >= 3 else len(secs), (model.header(i_, d_), [x[2] for x in body]))
        rec.cls("section_without_notes:" + kind)
    if shared:
        shared.sort(key=lambda x: x[0])
        secs = [(n, ([x[1] for x in shared] if n == "Events" else b)) for n, b in secs]
        case["truth"]["globals"] = [[t, "text", v] for t, _, v in shared]
        rec.cls("line_text_shared_with_events_section")
    final = rng.random() < 0.75
    if not final:
        rec.cls("no_line_terminator_after_the_last_brace")
    c = {"text": gen.render_sections(secs, rng.choice(["\n", "\n", "\r\n", "mixed"]), final), "truth": case["truth"], "sections": [[n, b] for n, b in secs]}
    out, ob, d = mcheck.judge(rec, ("C07",), c, extra=extra)
    if d is not None and not mcheck.select(d, ("C07",), extra) and mcheck.direct_sections(rec, ("C07",), c, out):
        rec.cls("section_route")


def run_shard(shard, rec, tier, seed):
    harness.setup()
    rng = harness.rng_for(seed, ID, shard["name"], 0)
    seen: set = set()
    rejects = []
    for ln in OTHER_KIND_LINES:
        judge_line(rec, ln, seen, "other")
    for i in range(shard["bases"]):
        base = canonical(rng)
        if i % 10 == 0:
            k = 40
            base = f"  {digits(rng, k)} = {rng.choice(['N 3', 'S 2'])} {digits(rng, k)}"
        judge_line(rec, base, seen, "canonical")
        for nm in near_misses(rng, base, limit=400):
            judge_line(rec, nm, seen, "nearmiss")
            if len(rejects) < 400 and recog.instrument_line(nm) == recog.REJECT and nm not in ("{", "}"):
                rejects.append(nm)
        for other in rng.sample(OTHER_KIND_LINES, 3):
            for nm in near_misses(rng, other, limit=30):
                judge_line(rec, nm, seen, "nearmiss")
        if i < 2:
            rec.sample({"canonical": base, "near_misses": near_misses(rng, base, limit=4)})
        if rec.full:
            break
    # (lines that are a brace once blanks are stripped are left out of SECTIONS: whether a padded brace still frames is open)
    pool = [x for x in OTHER_KIND_LINES + rejects if recog.instrument_line(x) == recog.REJECT and x.strip() not in ("{", "}")]
    for j in range(shard["sections"]):
        section_route(rec, harness.rng_for(seed, ID, shard["name"], f"s{j}"), pool)
        if rec.full:
            break
    harness.finish(rec)


def replay(case, rec):
    harness.setup()
    if "line" in case:
        judge_line(rec, case["line"], set(), "replay")
    else:
        mcheck.replay_case(rec, ("C07",), case, extra)
