"""C01 — every reported timestamp equals the exact tempo-map time of its tick (to 0.5 us per segment).

Monitor: reference model (exact rational tempo map) over the public observation of the parsed chart
plus direct tick-to-time queries; always-on contracts run inside the parser's own calls.
"""
from __future__ import annotations

import math
from fractions import Fraction

from vmon import gen, harness, mcheck, model
from vmon.model import TempoMap
from vmon.observe import us

ID = "C01"
LEVEL = "exploration"
RULE = ("one case = one generated well-formed chart (realistic / hostile / stress tempo maps, or a directed map whose "
        "event ticks have exact times a hair below/above/at x.5 us) parsed by the real parser, plus direct queries at "
        "tempo ticks -1/0/+1, random ticks and ticks far past the last tempo; evaluations = individual timestamp "
        "comparisons against the exact rational time; distinct non-trivial = distinct charts (by text hash) that have "
        ">= 2 tempo events or a directed half-microsecond tick and passed >= 1 comparison")
ASSUMPTIONS = [
    "budget per timestamp = s*(0.5 us + 1 ns), s = tempo segments in which the tick advances (1 ns = float64 slack, DESIGN C01)",
    "times at or above 10^6 s are outside the quantifier and skipped (counted)",
    "tempo values the tree refuses in isolation are rerouted to a neighbour (C08's question), counted as tempo_values_rerouted",
]


def required(tier):
    return ["time:direct query", "time:tempo event", "time:time-signature event", "time:text event", "time:section event",
            "time:lyric event", "time:note", "time:note end", "time:star-power event", "time:track event",
            "tick_at_tempo_change", "tick_past_last_tempo", "fraction_within_1e-3_of_half_us", "segment:10-499", "segment:500+",
            "bpm_below_1", "bpm_at_least_1e5", "directed_half_boundary", "concurrent_stage", "ambient_decimal_context_lowered", "ticks_around_2^31..10^12",
            "whole_seconds_minutes_hours_days_and_half_a_microsecond_short_of_them"]


def shards(tier, seed):
    n = 16 if tier == "quick" else 48
    per = 110 if tier == "quick" else 2200
    out = [{"name": f"rand-{i}", "kind": "random", "count": per} for i in range(n)]
    out += [{"name": f"ambient-{i}", "kind": "ambient", "count": 12 if tier == "quick" else 200} for i in range(2)]
    out += [{"name": f"stress-{i}", "kind": "stress", "count": 2 if tier == "quick" else 6} for i in range(4 if tier == "quick" else 8)]
    return out


def extra(p, kind):
    return p == "C03" and kind == "time"  # sustain-end times are named by C01 as well


# ------------------------------------------------------------------------------------------ directed
def solve_ticks(tm: TempoMap, horizon: int, rng, want: int = 6) -> list[int]:
    g = len(tm.ticks) - 1
    cum, upt = tm.cum[g], tm.upt(g)
    D = math.lcm(cum.denominator, upt.denominator)
    C = cum.numerator * (D // cum.denominator)
    A = upt.numerator * (D // upt.denominator)
    if D < 3:
        return []
    targets = [(D - 1) // 2, (D + 1) // 2] if D % 2 else [D // 2, D // 2 - 1, D // 2 + 1]
    out = []
    maxp = horizon - tm.ticks[g]
    for T in targets:
        g0 = math.gcd(A, D)
        if (T - C) % g0:
            continue
        Dm = D // g0
        try:
            p0 = ((T - C) // g0 * pow(A // g0, -1, Dm)) % Dm
        except ValueError:
            continue
        cands = [p0 + k * Dm for k in (0, 1, 2, rng.randint(0, max(0, (maxp - p0) // Dm if Dm else 0)))]
        for p in cands:
            if 1 <= p <= maxp:
                out.append(tm.ticks[g] + p)
    out = sorted(set(out))
    rng.shuffle(out)
    return sorted(out[:want])


def directed_case(rng) -> dict | None:
    res = rng.choice([1, 3, 7, 96, 192, 192, 480, 960, rng.randint(1, 10**4)])
    nseg = rng.choice([1, 1, 2, 3])
    limit = rng.choice([600, 10**4, 9 * 10**5]) * 10**6
    tempos = gen.gen_tempos(rng, rng.choice(["hostile", "realistic"]), res, nseg, limit)
    tm = TempoMap(res, tempos)
    horizon = tm.horizon(limit)
    ticks = solve_ticks(tm, horizon, rng)
    if len(ticks) < 2:
        return None
    groups = []
    for i, t in enumerate(ticks):
        ln = ticks[-1] - t if i % 2 == 0 else 0  # sustain ends land on a directed tick too
        groups.append({"tick": t, "lanes": {str(i % 5): ln}, "open": None, "forced": False, "tap": False})
    truth = {"resolution": res, "tempos": tempos, "timesigs": [[0, 4, None]] + [[t, 3, 3] for t in ticks[:2]],
             "globals": [[t, ["text", "section", "lyric"][i % 3], f"v{i}"] for i, t in enumerate(ticks)],
             "tracks": {"GUITAR/EXPERT": {"groups": groups, "phrases": [[t, 1] for t in ticks],
                                          "tevents": [[t, "solo"] for t in ticks]}}}
    case = gen.render_truth(truth)
    case["queries"] = ticks
    case["directed"] = True
    return case


def carry_case(rng) -> dict:
    """Directed: times that are EXACT whole seconds / minutes / hours / days (timedelta's days-seconds-microseconds carry) and times
    half a microsecond short of them (rounding carries into the next second or not — both within the budget, neither may lose a
    second); events and sustain ends on those very ticks; a tempo change exactly on such a boundary."""
    k = rng.randrange(4)
    if k == 0:      # 60 BPM at resolution 1: tick t = t seconds exactly
        res, tempos = 1, [[0, 60000]]
        ticks = [1, 59, 60, 61, 3599, 3600, 3601, 86399, 86400, 86401, 172800, 2 * 86400 + 3600 + 60 + 1, 999999]
    elif k == 1:    # 0.5 us per tick (125 000 BPM at resolution 960): odd ticks are ties; 2e6*k ticks = k seconds
        res, tempos = 960, [[0, 125000000]]
        ticks = sorted({2 * 10**6 * m + d for m in (1, 2, 60, 61, 3600) for d in (-1, 0, 1)} | {1, 2, 3, 1999997})
    elif k == 2:    # 120 BPM at 192: 384 ticks per second; a tempo change exactly on the minute and on the hour
        res, tempos = 192, [[0, 120000], [384 * 60, 60000], [384 * 60 + 192 * 3540, 240000]]
        ticks = sorted({384, 383, 385, 384 * 60 - 1, 384 * 60, 384 * 60 + 1, 384 * 60 + 192, 384 * 60 + 192 * 3540 - 1, 384 * 60 + 192 * 3540,
                        384 * 60 + 192 * 3540 + 768, 384 * 60 + 192 * 3540 + 768 * 3600})
    else:           # thousandths of a BPM that give whole microseconds per tick: 62.5 BPM at 960 -> 1000 us per tick
        res, tempos = 960, [[0, 62500], [1000, 31250], [1500, 125000]]
        ticks = [1, 999, 1000, 1001, 1499, 1500, 1501, 1500 + 2000 * 59, 1500 + 2000 * 60, 1500 + 2000 * 3600, 1500 + 2000 * 86400]
    tempos = [[t, gen.usable_n(n)] for t, n in tempos]
    groups = []
    for i, t in enumerate(ticks):
        ln = (ticks[i + 1] - t) if (i % 2 == 0 and i + 1 < len(ticks)) else 0  # held exactly until the next boundary tick
        groups.append({"tick": t, "lanes": {str(i % 5): ln}, "open": None, "forced": False, "tap": False})
    truth = {"resolution": res, "tempos": tempos, "timesigs": [[0, 4, None]] + [[t, 3, 3] for t in ticks[:2]],
             "globals": [[t, ["text", "section", "lyric"][i % 3], f"b{i}"] for i, t in enumerate(ticks)],
             "tracks": {"GUITAR/EXPERT": {"groups": groups, "phrases": [[t, 1] for t in ticks], "tevents": [[t, "solo"] for t in ticks]}}}
    case = gen.render_truth(truth)
    case["queries"] = sorted(set(ticks + [0]))
    case["directed"] = True
    return case


# ------------------------------------------------------------------------------------------ judging
def check_case(rec, case: dict) -> None:
    out, ob, d = mcheck.judge(rec, ("C01",), case, extra=extra)
    if ob is None:
        return
    truth = case["truth"]
    tm = TempoMap(truth["resolution"], truth["tempos"])
    be = out.chart.sync_track.bpm_events
    dq = model.Diffs()
    for t in case.get("queries", []):
        # a query for a non-negative tick of a chart that parsed has an answer: an exception here is a wrong answer, not a harness error
        try:
            if (t + len(case["queries"])) % 3 == 0:
                harness.distract(rec)
            if t % 4 in (1, 3):
                # the call before this one FAILED (a negative tick, a hint past the end, a hint beyond the governing tempo): a refused
                # question leaves nothing behind for the next one
                try:
                    if t % 8 == 1:
                        be.timestamp_at_tick(-1)
                    elif t % 8 == 3:
                        be.timestamp_at_tick(0, start_iteration_index=len(be) + 2)
                    else:
                        be.timestamp_at_tick(0, start_iteration_index=len(be) - 1)
                except ValueError:
                    rec.mon("valid_questions_put_right_after_a_refused_one")
            ts, _ = be.timestamp_at_tick(t)
            model.check_time(dq, tm, t, us(ts), "direct query")
            if t % 2:
                harness.distract(rec)
            ts2 = be.timestamp_at_tick_no_optimize_return(t)
            model.check_time(dq, tm, t, us(ts2), "direct query")
        except Exception as e:  # noqa
            if tm.exact(t) < model.TIME_LIMIT_US:
                dq.add("C01", "time", f"direct query at tick {t} (asked after {case['queries'][:case['queries'].index(t)][-3:]}) raised {harness.exc_str(e)}")
    if not dq.items and case.get("queries") and len(case["text"]) % 5 == 3:
        # a re-gridded song: the parsed map's FIRST tempo event inside a BPMEvents of another resolution (public constructor) is a
        # one-tempo map of that resolution - whatever the event carries along from the chart that made it is not part of the new map
        try:
            import chartparse.sync as S_

            res2 = 480 if truth["resolution"] != 480 else 192
            be2 = S_.BPMEvents(events=[be[0]], resolution=res2)
            tm2 = TempoMap(res2, [[0, truth["tempos"][0][1]]])
            for t in case["queries"][:40]:
                model.check_time(dq, tm2, t, us(be2.timestamp_at_tick(t)[0]), f"query of a one-tempo map built from the parsed map's first event with resolution {res2}")
            rec.cls("queries_of_a_regridded_one_tempo_map")
        except TypeError:
            rec.mon("regridded_map_skipped")
    if not dq.items and case.get("queries") and (case.get("heavy") or case.get("shared_threads")):
        repeated_and_shared_use(rec, case, be, tm, dq)
    rec.ev(dq.evals.get("C01", 0))
    for k, v in dq.classes.items():
        rec.cls(k, v)
    if dq.over_bare:
        rec.mon("times_beyond_bare_half_us_but_within_float_slack", dq.over_bare)
        rec.mx("max_excess_over_bare_budget_us", float(dq.max_excess_bare))
    if dq.items:
        rec.violation("time", dq.items[0][2] + (f" (+{len(dq.items) - 1} more)" if len(dq.items) > 1 else ""),
                      {"text": case["text"], "truth": truth, "queries": case.get("queries", []), "heavy": bool(case.get("heavy")),
                       "shared_threads": bool(case.get("shared_threads"))}, "C01:time")
    elif not (d and mcheck.select(d, ("C01",), extra)):
        if len(truth["tempos"]) >= 2 or case.get("directed"):
            rec.key(case["text"])
    if case.get("directed"):
        rec.cls("directed_half_boundary")
    harness.collect_contracts(rec, None)


def repeated_and_shared_use(rec, case, be, tm, dq) -> None:
    """A tempo map is asked thousands of questions in its life, and an application may ask from several threads: the 1 500th answer
    and an answer given while other threads are asking the same map are the answers of the first, single-threaded asking (which
    the exact model has just judged)."""
    qs = [t for t in case["queries"] if tm.exact(t) < model.TIME_LIMIT_US]
    if not qs:
        return
    first = {}
    for t in qs:
        first[t] = (us(be.timestamp_at_tick(t)[0]), be.timestamp_at_tick(t)[1], us(be.timestamp_at_tick_no_optimize_return(t)))

    def ask(t):
        a = be.timestamp_at_tick(t)
        return (us(a[0]), a[1], us(be.timestamp_at_tick_no_optimize_return(t)))

    if case.get("heavy"):
        n = 0
        for r in range(1600):
            t = qs[(r * 7 + r // len(qs)) % len(qs)]
            try:
                got = ask(t)
            except Exception as e:  # noqa
                got = harness.exc_str(e)
            n += 1
            if got != first[t]:
                dq.add("C01", "time", f"direct query at tick {t}, asked for the {r + len(qs) + 1}th time of this tempo map's life, answers {got}; the "
                       f"first time it answered {first[t]} ((time us, tempo index, time us))")
                break
        dq.evals["C01"] = dq.evals.get("C01", 0) + n
        rec.cls("tempo_map_asked_more_than_1500_questions")
    if case.get("shared_threads") and not dq.items:
        import sys
        import threading

        bad = []

        reps = [6]

        def worker(k):
            try:
                for r in range(reps[0]):
                    for j in range(len(qs)):
                        t = qs[(j * (k + 1) + r) % len(qs)]
                        got = ask(t)
                        if got != first[t]:
                            bad.append(f"tick {t}: {got} instead of {first[t]}")
                            return
            except Exception as e:  # noqa
                bad.append(f"raised {harness.exc_str(e)}")

        old = sys.getswitchinterval()
        sys.setswitchinterval(1e-6)
        try:
            # first with switches provoked between chartparse statements (harness.yields), then many more rounds on the switch interval alone
            for injected in (True, False):
                reps[0] = 6 if injected else 30
                with harness.yields(0.08 if injected else 0.0, len(case["text"])) as inj:
                    ths = [threading.Thread(target=worker, args=(k,)) for k in range(4)]
                    for th in ths:
                        th.start()
                    for th in ths:
                        th.join(120)
                if injected and inj is not None:
                    rec.mon("thread_switches_provoked_inside_chartparse_while_sharing_a_tempo_map", inj.switches)
                if bad or any(th.is_alive() for th in ths):
                    break
        finally:
            sys.setswitchinterval(old)
        dq.evals["C01"] = dq.evals.get("C01", 0) + 4 * 36 * len(qs)
        if any(th.is_alive() for th in ths):
            rec.inconc("shared tempo map: query threads still running after 120 s (watchdog)")
        elif bad:
            dq.add("C01", "time", f"one tempo map asked by 4 threads at once: {bad[0]} (single-threaded answer; (time us, tempo index, time us))")
        rec.cls("tempo_map_shared_by_4_threads")


def run_shard(shard, rec, tier, seed):
    harness.setup()
    keep = mcheck.Keep()
    if shard["kind"] == "ambient":
        # the CALLER's ambient numeric state is not the library's to depend on: a client that lowered its decimal context
        # (precision 6, ROUND_DOWN) must get the same timestamps
        import decimal

        ctx = decimal.getcontext()
        ctx.prec = 6
        ctx.rounding = decimal.ROUND_DOWN
        rec.cls("ambient_decimal_context_lowered")
    for i in range(shard["count"]):
        rng = harness.rng_for(seed, ID, shard["name"], i)
        if shard["kind"] == "stress":
            case = gen.gen_chart(rng, "hostile" if i % 2 else "stress", n_tempos=rng.choice([500, 1200, 2000]),
                                 n_tracks=1, n_groups=400, n_globals=60)
        elif i % 5 == 4:
            case = directed_case(rng)
            if case is None:
                continue
        elif i % 25 == 3:
            case = gen.huge_tick_chart(rng)
            rec.cls("ticks_around_2^31..10^12")
        elif i % 25 == 8:
            case = carry_case(rng)
            rec.cls("whole_seconds_minutes_hours_days_and_half_a_microsecond_short_of_them")
        else:
            prof = "hostile" if i % 2 else "realistic"
            case = gen.chart_or_interactions(rng, i, prof, rec, n_tempos=rng.choice([1, 2, 3, 5, 12, 30, 80]) if prof == "hostile" else None)
        if "queries" not in case:
            tm = TempoMap(case["truth"]["resolution"], case["truth"]["tempos"])
            hz = tm.horizon(model.TIME_LIMIT_US - 1)
            q = gen.interesting_ticks(rng, tm, min(hz, case["horizon"] + 10**6), 24)
            q += [0, min(hz, tm.ticks[-1] + 10**6), min(hz, tm.ticks[-1] + 1)]
            case["queries"] = sorted(set(q))
        # the ORDER in which a client asks is its own business: ascending, descending, shuffled, and the first tick asked once more
        # at the end (an answer must not depend on what was asked before)
        mode = i % 4
        if mode == 1:
            case["queries"] = case["queries"][::-1]
        elif mode == 2:
            rng.shuffle(case["queries"])
        if mode and case["queries"]:
            case["queries"] = case["queries"] + case["queries"][:1]
        rec.cls(("queries_ascending", "queries_descending", "queries_shuffled", "queries_ascending_then_first_again")[mode])
        if i % 9 == 3:
            case["heavy"] = True
        elif i % 9 == 7:
            case["shared_threads"] = True
        check_case(rec, case)
        keep.add(case)
        if i < 2:
            rec.sample({"resolution": case["truth"]["resolution"], "tempos": case["truth"]["tempos"][:6],
                        "queries": case["queries"][:8], "text_head": case["text"][:300]})
        if rec.full:
            break
    if not rec.full:
        mcheck.threaded_stage(rec, ("C01",), keep.cases, extra)
    harness.finish(rec)


def replay(case, rec):
    harness.setup()
    if case.get("concurrent"):
        for _ in range(5):
            mcheck.threaded_stage(rec, ("C01",), [case], extra, repeats=6)
            if rec.violations:
                return
    check_case(rec, case)
