"""C10 — metadata fields decode independently, verbatim, with documented defaults.

Monitor: reference model (ground-truth field map + documented defaults) on Metadata.from_chart_lines and on
full charts; cross-field probes (one other field's line changed / added / removed, then re-checked);
missing Resolution must raise MissingRequiredField.
"""
from __future__ import annotations

import unicodedata

from vmon import gen, harness, model, observe

ID = "C10"
LEVEL = "exploration"
RULE = ("one case = one [Song] section (a subset of the 23 optional fields + Resolution, lines in random order, string values "
        "quoted and drawn from quotes, '=', complete lines of other fields, field names, inner leading/trailing blanks, "
        "non-ASCII, digits; integers of 1-12 digits with leading zeros) decoded by Metadata.from_chart_lines and, for every "
        "fourth case, by Chart.from_file; evaluations = per-field comparisons (24 per section) + MissingRequiredField checks; "
        "distinct non-trivial = distinct section bodies with >= 2 fields present whose 24 fields all matched")
ASSUMPTIONS = [
    "string values quoted as Moonscraper writes them; Player2 unquoted; no duplicate lines of one field; two-space indent",
    "documented defaults: offset 0, player2 bass, difficulty 0, preview 0/0, genre 'rock', media_type 'cd', other strings None",
]
OPT = [f for f in model.ALL_FIELDS if f != "resolution"]


def required(tier):
    return ["all_fields_present_and_absent", "missing_resolution_raises", "value_contains_other_field_line", "value_starts_or_ends_with_quote",
            "value_with_inner_trailing_blank", "via_full_chart", "cross_field_probe", "resolution_first", "resolution_last", "resolution_zero_decoded",
            "value_not_unicode_normalised", "concurrent_stage", "by_path_non_ascii_straddling_2^k", "integer_above_2^53", "whole_generated_chart"]


def shards(tier, seed):
    n = 16 if tier == "quick" else 48
    out = [{"name": f"md-{i}", "kind": "random", "count": 500 if tier == "quick" else 12000} for i in range(n)]
    out.append({"name": "subsets", "kind": "subsets"})
    out += [{"name": f"charts-{i}", "kind": "charts", "count": 60 if tier == "quick" else 1500} for i in range(2 if tier == "quick" else 8)]
    return out


def check_lines(rec, md: dict, lines: list, via_chart: bool, rng=None) -> bool:
    import chartparse.metadata as M

    case = {"lines": lines, "md": md, "via_chart": via_chart}
    try:
        if via_chart:
            text = gen.render_sections([("Song", lines), ("SyncTrack", ["  0 = TS 4", "  0 = B 120000"]), ("Events", [])])
            out = harness.parse(text)
            if not out.ok:
                raise out.exc
            got = observe.observe_metadata(out.chart.metadata)
        elif len(lines) % 2:
            got = observe.observe_metadata(M.Metadata.from_chart_lines(iter(lines)))
        else:
            # handed over as a real list and decoded twice: the caller's list must come back untouched, the answer the same
            mine = list(lines)
            got = observe.observe_metadata(M.Metadata.from_chart_lines(mine))
            again = observe.observe_metadata(M.Metadata.from_chart_lines(mine)) if mine == list(lines) else None
            if mine != list(lines) or again != got:
                rec.ev()
                rec.violation("caller-list-consumed", f"Metadata.from_chart_lines(list) changed the caller's list ({len(lines)} -> {len(mine)} lines) "
                              "or decodes it differently the second time", case, "decode-consumes-or-depends-on-callers-list")
                return False
    except Exception as e:  # noqa
        rec.ev()
        if md.get("resolution") == 0 and isinstance(e, ValueError):
            # a resolution of 0 may be decoded as 0 or refused on the spot as untrustworthy (ValueError, cf. C15);
            # what it may not be is reported as a MISSING field
            rec.cls("resolution_zero_refused_with_ValueError")
            return True
        rec.violation("well-formed-section-rejected", f"[Song] section {lines[:6]}... rejected with {harness.exc_str(e)}", case,
                      f"rejected:{type(e).__name__}")
        return False
    exp = model.expected_metadata(md)
    bad = [(f, exp[f], got.get(f)) for f in model.ALL_FIELDS if got.get(f, "<missing>") != exp[f]]
    rec.ev(len(model.ALL_FIELDS))
    if bad:
        f, e, g = bad[0]
        line = next((ln for ln in lines if ln.strip().startswith(model.PASCAL[f] + " =")), None)
        rec.violation("field", f"metadata.{f}: expected {e!r}, observed {g!r} (its line: {line!r}; {len(bad)} field(s) differ; "
                      f"section: {lines[:8]})", case, f"field:{'default' if f not in md else 'value'}")
        return False
    return True


def classes(rec, md, lines):
    for f in OPT:
        rec.cls(("present:" if f in md else "absent:") + f)
    for f, v in md.items():
        if isinstance(v, str) and f != "player2":
            if " = " in v:
                rec.cls("value_contains_other_field_line")
            if v.startswith("\"") or v.endswith("\""):
                rec.cls("value_starts_or_ends_with_quote")
            if v != v.rstrip(" \t") and v.strip():
                rec.cls("value_with_inner_trailing_blank")
            if unicodedata.normalize("NFC", v) != v or unicodedata.normalize("NFKC", v) != v:
                rec.cls("value_not_unicode_normalised")
        if isinstance(v, int) and v > 2**53:
            rec.cls("integer_above_2^53")
    if lines and lines[0].strip().startswith("Resolution"):
        rec.cls("resolution_first")
    if lines and lines[-1].strip().startswith("Resolution"):
        rec.cls("resolution_last")


def missing_resolution(rec, rng, lines):
    import chartparse.metadata as M

    body = [ln for ln in lines if not ln.strip().startswith("Resolution =")]
    rec.ev()
    try:
        M.Metadata.from_chart_lines(iter(body))
        rec.violation("missing-resolution-accepted", f"[Song] without a Resolution line was accepted: {body[:5]}",
                      {"lines": body, "md": None, "via_chart": False}, "missing-resolution")
    except Exception as e:  # noqa
        if type(e).__name__ != "MissingRequiredField":
            rec.violation("missing-resolution-wrong-error", f"[Song] without Resolution raised {harness.exc_str(e)}, not MissingRequiredField",
                          {"lines": body, "md": None, "via_chart": False}, "missing-resolution")
        else:
            rec.cls("missing_resolution_raises")


def run_shard(shard, rec, tier, seed):
    harness.setup()
    if shard["kind"] == "charts":
        from vmon import mcheck

        # [Song] next to fully populated other sections (tracks of every instrument, events, busy sync): no section's content is the
        # metadata's business
        mcheck.whole_charts(rec, ("C10",), seed, ID, shard["name"], shard["count"])
        return harness.finish(rec)
    if shard["kind"] == "subsets":
        # all 2^k subsets of k=7 optional fields (a different window of fields per bit pattern block), canonical values
        rng = harness.rng_for(seed, ID, "subsets", 0)
        for w in range(0, len(OPT), 4):
            window = (OPT + OPT)[w:w + 7]
            for mask in range(128):
                fields = [f for b, f in enumerate(window) if mask >> b & 1]
                md, lines = gen.gen_metadata(rng, "hostile" if mask % 2 else "realistic", rng.choice([192, 480, 1]), fields)
                if check_lines(rec, md, lines, False):
                    classes(rec, md, lines)
                    if len(md) >= 2:
                        rec.key(lines)
                if rec.full:
                    return
        return harness.finish(rec)
    kept = []
    for i in range(shard["count"]):
        rng = harness.rng_for(seed, ID, shard["name"], i)
        prof = "hostile" if i % 3 else "realistic"
        resolution = gen.gen_resolution(rng, prof) if i % 25 != 7 else rng.choice([0, 0, 10**12, 2**53 + 1, 10**30 + 7])  # "forall non-negative integers"
        md, lines = gen.gen_metadata(rng, prof, resolution, res_pos=["first", "last", None][i % 3] if i % 2 else None)
        via = i % 4 == 0 and resolution > 0
        if resolution == 0:
            rec.cls("resolution_zero_decoded")
        if check_lines(rec, md, lines, via, rng):
            classes(rec, md, lines)
            if via:
                rec.cls("via_full_chart")
            if len(md) >= 2:
                rec.key(lines)
            # cross-field probe: change / add / remove exactly one other field's line and re-check everything
            f = rng.choice(OPT)
            md2 = dict(md)
            lines2 = [ln for ln in lines if not ln.strip().startswith(model.PASCAL[f] + " =")]
            if f in md and rng.random() < 0.4:
                del md2[f]
            else:
                md3, l3 = gen.gen_metadata(rng, "hostile", md["resolution"], [f])
                md2[f] = md3[f]
                newline = next(ln for ln in l3 if ln.strip().startswith(model.PASCAL[f] + " ="))
                lines2.insert(rng.randint(0, len(lines2)), newline)
            if check_lines(rec, md2, lines2, False):
                rec.cls("cross_field_probe")
        if i % 10 == 0:
            missing_resolution(rec, rng, lines)
        if i < 2:
            rec.sample({"section": lines[:10]})
        if len(kept) < 24 and len(md) >= 3:
            kept.append((md, lines))
        if rec.full:
            break
    if not rec.full:
        concurrent_stage(rec, kept)
    if not rec.full and shard["name"].endswith(("-0", "-1")):
        by_path_alignment(rec, harness.rng_for(seed, ID, shard["name"], "path"))
    harness.finish(rec)


def by_path_alignment(rec, rng):
    """[Song] read by path: non-ASCII values whose UTF-8 bytes straddle byte offsets 2^k (k = 9..13), no BOM and BOM"""
    import pathlib
    import shutil
    import tempfile

    d = tempfile.mkdtemp(prefix="vmon-c10-")
    harness.add_siblings(d)  # a song folder: song.ini (name, artist, ...), album picture, stems, another chart
    try:
        for k in (9, 10, 11, 12, 13):
            for back in (1, 2):
                for bom in (False, True):
                    md = {"resolution": 192, "artist": "Mot\u00f6rhead \u4e16\u754c", "charter": "caf\u00e9"}
                    head = "[Song]\n{\n  Resolution = 192\n  Artist = \"Mot\u00f6rhead \u4e16\u754c\"\n  Charter = \"caf\u00e9\"\n  Name = \""
                    fill = 2**k - back - len(head.encode("utf-8")) - (3 if bom else 0)
                    if fill < 0:
                        continue
                    md["name"] = "z" * fill + "\u4e16\u754c!"
                    text = head + md["name"] + "\"\n}\n[SyncTrack]\n{\n  0 = TS 4\n  0 = B 120000\n}\n[Events]\n{\n}\n"
                    raw = (b"\xef\xbb\xbf" if bom else b"") + text.encode("utf-8")
                    p = pathlib.Path(d) / "c.chart"
                    p.write_bytes(raw)
                    rec.ev()
                    case = {"lines": text.split("\n")[2:6], "md": md, "via_chart": True, "by_path_hex_len": len(raw)}
                    try:
                        got = observe.observe_metadata(harness.Chart.from_filepath(p).metadata)
                    except Exception as e:  # noqa
                        rec.violation("well-formed-section-rejected", f"read by path ({'BOM' if bom else 'no BOM'}, non-ASCII bytes straddling "
                                      f"byte 2^{k}): {harness.exc_str(e)}", case, "by-path-rejected")
                        return
                    exp = model.expected_metadata(md)
                    bad = [(f, exp[f][-12:] if isinstance(exp[f], str) else exp[f], got.get(f)[-12:] if isinstance(got.get(f), str) else got.get(f))
                           for f in model.ALL_FIELDS if got.get(f) != exp[f]]
                    if bad:
                        rec.violation("field", f"read by path ({'BOM' if bom else 'no BOM'}), a multi-byte character straddling byte offset 2^{k}: "
                                      f"fields differ (tails) {bad[:3]}", case, "field:by-path-non-ascii")
                        return
        rec.cls("by_path_non_ascii_straddling_2^k")
    finally:
        shutil.rmtree(d, ignore_errors=True)


def concurrent_stage(rec, kept):
    """several threads decode different [Song] sections at the same time; each result must still be its own section's"""
    import sys
    import threading

    import chartparse.metadata as M

    results, errors = [], []

    def worker(k):
        try:
            for r in range(6):
                for j in range(len(kept)):
                    md, lines = kept[(j + 5 * k + r) % len(kept)]
                    try:
                        got = observe.observe_metadata(M.Metadata.from_chart_lines(iter(lines)))
                    except Exception as e:  # noqa
                        got = e
                    results.append((md, lines, got))
        except BaseException as e:  # noqa
            errors.append(repr(e))

    old = sys.getswitchinterval()
    sys.setswitchinterval(1e-6)
    try:
        ths = [threading.Thread(target=worker, args=(k,)) for k in range(4)]
        [t.start() for t in ths]
        [t.join(120) for t in ths]
    finally:
        sys.setswitchinterval(old)
    for md, lines, got in results:
        rec.ev()
        exp = model.expected_metadata(md)
        if isinstance(got, ValueError) and md.get("resolution") == 0:
            continue  # refused as untrustworthy (see check_lines)
        if isinstance(got, Exception) or any(got.get(f) != exp[f] for f in model.ALL_FIELDS):
            what = harness.exc_str(got) if isinstance(got, Exception) else str([(f, exp[f], got.get(f)) for f in model.ALL_FIELDS if got.get(f) != exp[f]][:3])
            rec.violation("field", f"decoded concurrently with 3 other threads, section {lines[:5]}... gave {what}",
                          {"lines": lines, "md": md, "via_chart": False, "concurrent": True}, "concurrent:field")
            return
    if results and not errors:
        rec.cls("concurrent_stage")


def finalize(agg, tier):
    missing = [f for f in OPT if not (agg["classes"].get("present:" + f) and agg["classes"].get("absent:" + f))]
    if not missing:
        agg["classes"]["all_fields_present_and_absent"] = 1
    return {"fields_not_seen_both_ways": missing}


def replay(case, rec):
    harness.setup()
    if case.get("concurrent"):
        other = {"resolution": 7, "name": "x", "artist": "y", "offset": 5}
        kept = [(case["md"], case["lines"]), (other, [gen.metadata_line(None, f, v) for f, v in other.items()])]
        for _ in range(10):
            concurrent_stage(rec, kept)
            if rec.violations:
                return
    if "by_path_hex_len" in case:
        import random

        by_path_alignment(rec, random.Random(0))
        return
    if case.get("md") is None:
        missing_resolution(rec, None, case["lines"])
    else:
        check_lines(rec, case["md"], case["lines"], case.get("via_chart", False))
