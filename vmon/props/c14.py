"""C14 — unrecognised lines are skipped locally; each line is claimed at most once.

Monitors: DispatchProbe + LogProbe trace checker (conservation: lines = data + warnings, per kind
exactly the lines that kind claims, one warning per unclaimed line), metamorphic locality (insert /
delete / move unparsable lines: observation unchanged), and pairwise disjointness of the sync and
instrument recognisers on every line seen plus a pool of near-miss strings.
"""
from __future__ import annotations

from vmon import gen, harness, model, observe, probes, recog
from vmon.props import c07

ID = "C14"
LEVEL = "exploration"
RULE = ("one case = one chart whose sync / events / instrument sections received 0-50 inserted unparsable lines (garbage, "
        "empty and blank lines, lines of foreign sections, unsupported indices, header-looking lines; all must-reject for every "
        "kind of that section by the independent line oracles) at random positions, then had them moved and deleted; "
        "evaluations = per-dispatch conservation checks + per-line claimant counts + locality comparisons + disjointness "
        "probes on near-miss strings; distinct non-trivial = distinct mutated texts with >= 1 inserted line that passed")
ASSUMPTIONS = [
    "[Song] is outside this property (its lines are not dispatched and nothing is reported for them)",
    "in [Events] text overlaps lyric/section by design (resolved by order, C09): only '>= 1 claimant => exactly one datum' is required there",
    "a line's claimants are determined by offering it to each kind's public from_chart_line",
    "pairwise disjointness is decided on generated strings only",
]
GARBAGE = ["garbage", "", " ", "  ", "\t", "= =", "0 = ", "  0 = Q 1 2", "[Foo]", "[ExpertSingle]", "  [Song]", "//comment", "  0 = N 8 0",
           "  0 = N 9 1", "  0 = S 64 10", "  0 = S 0 10", "  0 = S 1 10", "  0 = S 22 3", "  0 = N 0", "  0 = N 0 0 0", "  0 = E two words",
           "  0 = B 120000", "  0 = TS 4", "  0 = TS 4 2", "  0 = A 1000", "  0 = N 0 0", "  0 = S 2 10", "  0 = E solo", "  0 = E \"section a b\"",
           "  0 = E \"lyric a b\"", "  0 = E \"two words\"", "  0 = E \"a\"b\"", "  0 = B", "  0 = B x", "  0 = B -1", "  0 = B 1.5", "  0 = TS",
           "  0 = TS 4 2 1", "  B 120000", "  0 = A", "  0 = E unquoted", "  0 = E", "  Resolution = 192", "  Name = \"x\"", "  0 = H 1 2",
           "  10 = N 5", "  10 = S 2", "0", "N 0 0", "  0 = TS x", "  0 = A -5", "  0 == B 5",
           "100%", "  0 = N 0 0 %s", "%d garbage %(x)s", "  5 = E 100%done now", "%", "%%", "  0 = Q %s %s",
           "  0 = N 34 0", "  0 = N 67 0", "  0 = N 45 1", "  0 = N 01 0", "  0 = N 12 96", "  0 = N 0123 0", "  0 = N 07 0", "  0 = N  96", "  0 = S 02 5",
           "  0 = S 12 5", "  0 = S 22 5", "  0 = S  5", "  0 = TS  4", "  0 = B  5",
           # number forms that int() accepts and the format does not have: digit grouping, explicit signs, surrounding blanks inside
           "  7_68 = N 4 0", "  1000 = N 0 1_0", "  +768 = N 3 0", "  768 = N +3 0", "  768 = S 2 +5", "  1_0 = B 120000", "  0 = B 120_000",
           "  0 = TS +4", "  0 = A 1_000", "  -5 = N 0 0", "  768 = N 0 -5", "  0 = B +120000", "  1e2 = N 0 0", "  0x10 = N 0 0", "  768 = N 0 1.0"]


VARIANTS = {
    "instrument": ["  5 =  N 0 0", "  5  = N 0 0", "  5 = N  0 0", "  5 = N 0  0", "  5 =\tN 0 0", "  5 = S  2 9", "  5 =  S 2 9", "  5 =  E solo", "  5 = E  solo",
                   "  5 = n 0 0", "  5 = s 2 9", "5=N 0 0", "  5 = N0 0"],
    "sync": ["  0 =  B 120000", "  0 = B  120000", "  0  = TS 4", "  0 = TS  4", "  0 = TS 4  2", "  0 =  A 5", "  0 = b 120000", "  0 = ts 4", "0=B 5"],
    "events": ["  900 =  E \"lyric ip-\"", "  900 = E  \"section x\"", "  900  = E \"y\"", "  900 =\tE \"lyric z\"", "  900 = e \"lyric z\"",
               "  900 = E \"lyric q\"  x", "900=E \"t\""],
}


def required(tier):
    return ["inserted:first", "inserted:last", "inserted:between_N_lines_of_one_tick", "section:sync", "section:events", "section:instrument",
            "family:blank", "family:foreign", "family:unsupported_index", "family:header_like", "claimed_by:NoteEvent", "claimed_by:StarPowerEvent",
            "claimed_by:TrackEvent", "claimed_by:BPMEvent", "claimed_by:TimeSignatureEvent", "claimed_by:AnchorEvent", "claimed_by:TextEvent",
            "claimed_by:SectionEvent", "claimed_by:LyricEvent", "moved", "deleted", "disjointness_probe", "inserted:copy_of_a_line_valid_elsewhere_in_the_chart", "inserted:more_than_100_in_one_section",
            "direct_section_entry:generator", "direct_section_entry:iterator", "direct_section_entry:list"]


def shards(tier, seed):
    n = 16 if tier == "quick" else 48
    return [{"name": f"ins-{i}", "count": 25 if tier == "quick" else 400} for i in range(n)]


ORACLE = {"sync": recog.sync_line, "events": recog.events_line, "instrument": recog.instrument_line}


def pool_for(section_kind):
    # braces — also whitespace-padded ones, whose framing role the statements leave open — are never inserted as "unparsable lines"
    return [x for x in GARBAGE if ORACLE[section_kind](x) == recog.REJECT and x.strip() not in ("{", "}")]


POOLS = None


def family(rec, line):
    if line.strip(" \t") == "":
        rec.cls("family:blank")
    elif line.strip().startswith("["):
        rec.cls("family:header_like")
    elif " = S " in line or " = N " in line and ORACLE["instrument"](line) == recog.REJECT:
        rec.cls("family:unsupported_index")
    elif any(ORACLE[k](line)[0] == "accept" for k in ORACLE):
        rec.cls("family:foreign")
    else:
        rec.cls("family:garbage")


def kind_of(name):
    return "sync" if name == "SyncTrack" else "events" if name == "Events" else None if name == "Song" else "instrument"


def claimants(types, line):
    out = []
    for t in types:
        try:
            t.from_chart_line(line)
            out.append(t)
        except Exception:  # noqa
            pass
    return out


def kinds_of_section(kind):
    import chartparse.globalevents as G
    import chartparse.instrument as I
    import chartparse.sync as S

    return {"instrument": (I.NoteEvent.ParsedData, I.StarPowerEvent.ParsedData, I.TrackEvent.ParsedData),
            "sync": (S.BPMEvent.ParsedData, S.TimeSignatureEvent.ParsedData, S.AnchorEvent.ParsedData),
            "events": (G.LyricEvent.ParsedData, G.SectionEvent.ParsedData, G.TextEvent.ParsedData)}[kind]


def unclaimed_in_sections(sections, rec=None) -> int:
    """lines of the recognised sync / events / instrument sections that no kind of their section claims — computed from the
    text itself, not from what the dispatch probe happened to see (an implementation need not route every section through
    the same helper)"""
    n = 0
    for name, body in sections:
        k = kind_of(name)
        if k is None or name not in KNOWN_HEADERS:
            continue
        types = kinds_of_section(k)
        for ln in body:
            cl = claimants(types, ln)
            if not cl:
                n += 1
            elif rec is not None:
                rec.cls("claimed_by:" + cl[0].__qualname__.split(".")[0])
    return n


KNOWN_HEADERS = {"SyncTrack", "Events"} | {model.header(i, d) for i, d in model.ALL_PAIRS}


def check_dispatch(rec, log, logs, case) -> bool:
    """conservation / exactly-once over the dispatch records of one parse"""
    ok = True
    # reports = records of level WARNING+ anywhere in the chartparse logger tree (these charts have no unknown sections and
    # no unknown [Song] lines, so nothing else has a reason to be reported)
    track_warn = [m for (lg, lvl, m) in logs if (lg == "chartparse" or lg.startswith("chartparse.")) and lvl in ("WARNING", "ERROR", "CRITICAL")]
    broken = [m for m in track_warn if m.startswith("<unformattable log record")]
    if broken:
        rec.violation("warnings", f"a report about an unparsable line cannot be rendered ({broken[0]}): with the standard logging handlers that "
                      "line is never reported", case, "unparsable-line-report-unformattable")
        return False
    total_unclaimed = 0
    for r in log:
        if r["probe"] != "dispatch":
            continue
        rec.cls("dispatch_probe_active")
        types, lines = r["types"], r["lines"]
        qual = [t.__qualname__ for t in types]
        is_events = any("LyricEvent" in q or "TextEvent" in q for q in qual)
        per_kind = {q: 0 for q in qual}
        unclaimed = 0
        for ln in lines:
            cl = claimants(types, ln)
            rec.ev()
            if not cl:
                unclaimed += 1
            else:
                if len(cl) > 1 and not is_events:
                    rec.violation("disjointness", f"line {ln!r} is claimed by {[t.__qualname__ for t in cl]}", dict(case, line=ln),
                                  "two-kinds-claim-one-line")
                    ok = False
                per_kind[cl[0].__qualname__] += 1  # first in dispatch order wins (only matters in [Events])
        total_unclaimed += unclaimed
        n_data = sum(r["data"].values())
        rec.ev()
        if n_data + r["warnings"] != len(lines):
            rec.violation("conservation", f"dispatch over kinds {qual}: {len(lines)} lines but {n_data} data + {r['warnings']} warnings "
                          f"(data per kind {r['data']})", case, "lines!=data+warnings")
            ok = False
        elif r["warnings"] != unclaimed:
            rec.violation("warnings", f"dispatch over kinds {qual}: {unclaimed} lines are claimed by no kind but {r['warnings']} "
                          f"'unparsable' warnings were emitted", case, "warnings!=unclaimed-lines")
            ok = False
        elif not is_events and r["data"] != per_kind:
            rec.violation("exactly-once", f"dispatch over kinds {qual}: data per kind {r['data']} but lines claimed per kind {per_kind}",
                          case, "data-per-kind!=claimed-lines")
            ok = False
        elif is_events and n_data != len(lines) - unclaimed:
            rec.violation("exactly-once", f"[Events]: {len(lines) - unclaimed} lines have a claimant but {n_data} data were produced "
                          f"({r['data']})", case, "events-data!=claimed-lines")
            ok = False
    if case.get("sections"):
        rec.ev()
        expected = unclaimed_in_sections([(n, b) for n, b in case["sections"]], rec)
        if len(track_warn) != expected:
            rec.violation("warnings", f"{expected} lines of the recognised sections are claimed by no kind of their section, but "
                          f"{len(track_warn)} warnings were recorded on the chartparse loggers", case, "warnings!=unclaimed-lines")
            ok = False
        else:
            # "reported once as unparsable": the reports are about the UNCLAIMED lines. A report that quotes the text of a line which
            # was parsed, and quotes no unclaimed line, reports the wrong line (however the message is worded)
            un, cl = set(), set()
            for name, body in case["sections"]:
                k = kind_of(name)
                if k is None or name not in KNOWN_HEADERS:
                    continue
                for ln in body:
                    core = ln.strip()
                    (cl if claimants(kinds_of_section(k), ln) else un).add(core)
            un.discard("")
            cl = {c for c in cl if len(c) >= 7 and not any(c in u for u in un)}
            rec.ev()
            for m in track_warn:
                if not any(u in m for u in un):
                    named = next((c for c in cl if c in m), None)
                    if named is not None:
                        rec.violation("warnings", f"a report quotes the line {named!r}, which WAS parsed, and no unparsable line: {m[:200]!r}", case,
                                      "report-names-a-parsed-line")
                        ok = False
                        break
    return ok


def mutate(rng, rec, sections, mode):
    """returns (sections', n_inserted)"""
    out, n = [], 0
    for name, body in sections:
        k = kind_of(name)
        body = list(body)
        if k is not None:
            pool = POOLS[k]
            cnt = rng.choice([0, 1, 2, 5, 15, 50]) if rng.random() < 0.95 else rng.choice([101, 130, 260, 1100])
            if cnt > 100:
                rec.cls("inserted:more_than_100_in_one_section")
            if cnt:
                rec.cls(f"section:{k}")
            # besides the fixed pool: exact copies of lines that are VALID in another section of this very chart
            # (foreign here, must-reject for every kind of this section by the oracle) — the same text is then seen
            # both as an unparsable and as a parsable line within one parse and across parses of one process
            foreign = [ln for n2, b2 in sections if kind_of(n2) not in (None, k) for ln in b2[:40] if ORACLE[k](ln) == recog.REJECT]
            variants = [v for v in VARIANTS[k] if not claimants(kinds_of_section(k), v)]
            for _ in range(cnt):
                if variants and rng.random() < 0.12:
                    # blank/letter-case variants of real lines: my oracle says nothing about them, but if no kind of THIS tree
                    # claims the line, then by the tree's own standard it is an unclaimed line like any other
                    ln = rng.choice(variants)
                    rec.cls("inserted:blank_variant_unclaimed_by_this_tree")
                elif foreign and rng.random() < 0.35:
                    ln = rng.choice(foreign)
                    rec.cls("inserted:copy_of_a_line_valid_elsewhere_in_the_chart")
                else:
                    ln = rng.choice(pool)
                r = rng.random()
                if r < 0.15:
                    pos = 0
                    rec.cls("inserted:first")
                elif r < 0.3:
                    pos = len(body)
                    rec.cls("inserted:last")
                elif r < 0.5 and k == "instrument":
                    # between two N lines of one tick, if the body has such a pair
                    cand = [i for i in range(1, len(body)) if " = N " in body[i] and " = N " in body[i - 1]
                            and body[i].split("=")[0].strip() == body[i - 1].split("=")[0].strip()]
                    if cand:
                        pos = rng.choice(cand)
                        rec.cls("inserted:between_N_lines_of_one_tick")
                    else:
                        pos = rng.randint(0, len(body))
                else:
                    pos = rng.randint(0, len(body))
                body.insert(pos, ln)
                family(rec, ln)
                n += 1
        out.append((name, body))
    return out, n


def parse_obs(rec, secs, case_meta):
    text = gen.render_sections(secs)
    probes.drain()
    out = harness.parse(text)
    log = probes.drain()
    return text, out, log


def run_case(rec, rng, case, idx):
    sections = [(n, list(b)) for n, b in case["sections"]]
    text0, out0, log0 = parse_obs(rec, sections, None)
    meta = {"sections": [[n, b] for n, b in sections]}
    if not out0.ok:
        rec.diag(f"baseline chart rejected: {harness.exc_str(out0.exc)}")
        return
    check_dispatch(rec, log0, out0.logs, dict(meta, stage="baseline"))
    base = observe.digest(harness.obs(out0.chart))
    mutated, n_ins = mutate(rng, rec, sections, "insert")
    stages = [("inserted", mutated)]
    # move: shuffle the positions of the inserted lines (re-insert the same multiset elsewhere); delete: drop half of them
    moved = []
    for (name, body), (_, orig) in zip(mutated, sections):
        k = kind_of(name)
        if k is None:
            moved.append((name, list(body)))
            continue
        extra = list(body)
        for ln in orig:
            extra.remove(ln)
        nb = list(orig)
        for ln in extra:
            nb.insert(rng.randint(0, len(nb)), ln)
        moved.append((name, nb))
    stages.append(("moved", moved))
    deleted = []
    for (name, body), (_, orig) in zip(moved, sections):
        k = kind_of(name)
        if k is None:
            deleted.append((name, list(body)))
            continue
        extra = list(body)
        for ln in orig:
            extra.remove(ln)
        drop = extra[: len(extra) // 2]
        nb = list(body)
        for ln in drop:
            nb.remove(ln)
        deleted.append((name, nb))
    stages.append(("deleted", deleted))
    ok_all = True
    for stage, secs in stages:
        text, out, log = parse_obs(rec, secs, None)
        c = {"sections": [[n, b] for n, b in secs], "baseline_sections": meta["sections"], "stage": stage}
        rec.ev()
        if not out.ok:
            rec.violation("locality", f"after unparsable lines were {stage}, the chart is rejected with {harness.exc_str(out.exc)}", c,
                          "unparsable-line-aborts-parse")
            ok_all = False
            continue
        ok_all &= check_dispatch(rec, log, out.logs, c)
        if stage == "inserted" and n_ins and idx % 3 == 0:
            # the same text with the library's reports silenced by the application: skipping stays local and nothing breaks
            with harness.quiet(idx // 3):
                qo = harness.parse(text)
            probes.drain()
            rec.ev()
            rec.cls("parsed_with_reports_silenced")
            if not qo.ok or observe.digest(harness.obs(qo.chart)) != base:
                rec.violation("locality", "with the library's reports silenced (logging.disable / logger level ERROR) the chart with inserted unparsable lines "
                              + (f"is rejected: {harness.exc_str(qo.exc)}" if not qo.ok else "parses to other events"), dict(c, quiet=idx // 3),
                              "unparsable-line-aborts-parse" if not qo.ok else "unparsable-line-changes-events")
                ok_all = False
                continue
        if observe.digest(harness.obs(out.chart)) != base:
            a, b = harness.obs(out0.chart), harness.obs(out.chart)
            where = [k for k in a if a[k] != b[k]]
            rec.violation("locality", f"unparsable lines {stage} => parsed events changed (observation sections that differ: {where})", c,
                          "unparsable-line-changes-events")
            ok_all = False
        elif n_ins:
            if stage == "inserted" and not direct_entry_stage(rec, secs, out.chart):
                ok_all = False
                continue
            rec.cls(stage)
            rec.key(text)
        if rec.full:
            return
    if idx < 1:
        rec.sample({"inserted_lines": n_ins, "mutated_section_head": mutated[-1][1][:8]})


_DIRECT = 0


def direct_entry_stage(rec, secs, chart):
    """the sections with their inserted lines, handed straight to the documented per-section entry points ("an iterable of
    strings") as a generator / one-shot iterator / list (rotating): every unclaimed line is reported exactly once there too,
    and the decoded events are those of the whole-chart parse"""
    global _DIRECT
    import chartparse.globalevents as G
    import chartparse.instrument as I
    import chartparse.sync as S

    from vmon import env

    be = chart.sync_track.bpm_events
    by_header = {model.header(i, d): (i, d) for i, d in model.ALL_PAIRS}
    for name, body in secs:
        k = kind_of(name)
        if k is None or name not in KNOWN_HEADERS:
            continue
        expected = unclaimed_in_sections([(name, body)])
        if not expected:
            continue
        _DIRECT += 1
        fname, form = [("generator", lambda b: (x for x in b)), ("iterator", lambda b: iter(list(b))), ("list", list)][_DIRECT % 3]
        case = {"sections": [[n_, list(b_)] for n_, b_ in secs], "stage": "direct:" + fname, "direct": name}
        env.LOG.drain()
        rec.ev()
        try:
            if k == "sync":
                got, want = observe.observe_sync(S.SyncTrack.from_chart_lines(be.resolution, form(body))), observe.observe_sync(chart.sync_track)
            elif k == "events":
                got, want = observe.observe_global(G.GlobalEventsTrack.from_chart_lines(form(body), be)), observe.observe_global(chart.global_events_track)
            else:
                i, d = by_header[name]
                inst, diff = harness.Instrument[i], harness.Difficulty[d]
                got = observe.observe_track(I.InstrumentTrack.from_chart_lines(inst, diff, form(body), be))
                want = observe.observe_track(chart.instrument_tracks[inst][diff])
        except Exception as e:  # noqa
            env.LOG.drain()
            rec.violation("locality", f"[{name}] with {expected} unparsable lines handed to its from_chart_lines as a {fname}: raised {harness.exc_str(e)}",
                          case, "direct-entry-raised")
            return False
        logs = [m for (lg, lvl, m) in env.LOG.drain() if (lg == "chartparse" or lg.startswith("chartparse.")) and lvl in ("WARNING", "ERROR", "CRITICAL")]
        if len(logs) != expected:
            rec.violation("warnings", f"[{name}] handed to its from_chart_lines as a {fname}: {expected} lines are claimed by no kind but {len(logs)} "
                          "reports were recorded on the chartparse loggers", case, f"direct-entry:{fname}:warnings!=unclaimed-lines")
            return False
        if got != want:
            rec.violation("locality", f"[{name}] handed to its from_chart_lines as a {fname} decodes differently from the whole-chart parse", case,
                          f"direct-entry:{fname}:differs")
            return False
        rec.cls(f"direct_section_entry:{fname}")
        if k in ("sync", "instrument") and _DIRECT % 2:
            # the dispatching helper itself, documented as taking "a Sequence of types": handed the kinds as a list it claims and reports
            # exactly what it does when handed a tuple
            import chartparse.track as T

            fn = getattr(T, "parse_data_from_chart_lines", None)
            kinds = (S.BPMEvent.ParsedData, S.TimeSignatureEvent.ParsedData, S.AnchorEvent.ParsedData) if k == "sync" else \
                (I.NoteEvent.ParsedData, I.StarPowerEvent.ParsedData, I.TrackEvent.ParsedData)
            if fn is not None:
                try:
                    as_tuple = fn(kinds, list(body))
                except Exception:  # noqa - the helper is not callable this way (any more): skipped, the section entry points above decide
                    as_tuple = None
                env.LOG.drain()
                if as_tuple is not None:
                    rec.ev()
                    try:
                        as_list = fn(list(kinds), list(body))
                    except Exception as e:  # noqa
                        env.LOG.drain()
                        rec.violation("locality", f"[{name}] with {expected} unparsable lines: parse_data_from_chart_lines handed the kinds as a LIST raised "
                                      f"{harness.exc_str(e)}; handed the same kinds as a tuple it returns", dict(case, types_as_list=True), "dispatch-helper:kinds-as-list:raised")
                        return False
                    logs = [m for (lg, lvl, m) in env.LOG.drain() if (lg == "chartparse" or lg.startswith("chartparse.")) and lvl in ("WARNING", "ERROR", "CRITICAL")]
                    same = all(list(as_list[kk]) == list(as_tuple[kk]) for kk in kinds)
                    if not same or len(logs) != expected:
                        rec.violation("locality", f"[{name}]: parse_data_from_chart_lines handed the kinds as a list claims other data than with a tuple, or reports "
                                      f"{len(logs)} lines instead of {expected}", dict(case, types_as_list=True), "dispatch-helper:kinds-as-list:differs")
                        return False
                    rec.cls("dispatch_helper_called_with_kinds_as_list")
    return True


def disjointness_probe(rec, rng, n):
    import chartparse.instrument as I
    import chartparse.sync as S

    groups = {"instrument": (I.NoteEvent.ParsedData, I.StarPowerEvent.ParsedData, I.TrackEvent.ParsedData),
              "sync": (S.BPMEvent.ParsedData, S.TimeSignatureEvent.ParsedData, S.AnchorEvent.ParsedData)}
    bases = ["  0 = B 120000", "  0 = TS 4", "  0 = TS 4 2", "  0 = A 500", "  5 = N 0 0", "  5 = S 2 7", "  5 = E solo", "  5 = E \"x\""]
    for _ in range(n):
        base = rng.choice(bases + [c07.canonical(rng)])
        for ln in [base] + c07.near_misses(rng, base, limit=60):
            for gname, types in groups.items():
                cl = claimants(types, ln)
                rec.ev()
                if len(cl) > 1:
                    rec.violation("disjointness", f"string {ln!r} is claimed by {[t.__qualname__ for t in cl]} of the {gname} section",
                                  {"line": ln, "group": gname}, "two-kinds-claim-one-line")
                    return
        rec.cls("disjointness_probe")


def run_shard(shard, rec, tier, seed):
    global POOLS
    harness.setup()
    probes.install_dispatch_probe()
    POOLS = {k: pool_for(k) for k in ORACLE}
    for i in range(shard["count"]):
        rng = harness.rng_for(seed, ID, shard["name"], i)
        case = gen.gen_chart(rng, "hostile" if i % 2 else "realistic", n_tracks=rng.choice([1, 2, 3]), n_groups=rng.choice([2, 8, 30]),
                             n_globals=rng.choice([0, 2, 10, 80]), n_tempos=rng.choice([1, 3, 8]), pad=i % 4 == 0)
        run_case(rec, rng, case, i)
        if rec.full:
            break
    disjointness_probe(rec, harness.rng_for(seed, ID, shard["name"], "dj"), 30 if tier == "quick" else 600)
    for k, v in probes.status.items():
        rec.into("probe_status", f"{k}={v}")
    harness.finish(rec)


def finalize(agg, tier):
    status = set(agg["sets"].get("probe_status", ()))
    active = "dispatch=active" in status
    if not active:
        # the attach point is gone (refactor): conservation cannot be observed; locality and disjointness still decide
        for c in required(tier):
            if c.startswith("claimed_by:"):
                agg["monitor"][c] = agg["monitor"].get(c, 0) + 1
    return {"dispatch_probe": "active" if active else f"inactive: {sorted(status)}"}


def replay(case, rec):
    global POOLS
    harness.setup()
    probes.install_dispatch_probe()
    POOLS = {k: pool_for(k) for k in ORACLE}
    if "group" in case:
        import chartparse.instrument as I
        import chartparse.sync as S

        types = (I.NoteEvent.ParsedData, I.StarPowerEvent.ParsedData, I.TrackEvent.ParsedData) if case["group"] == "instrument" else \
            (S.BPMEvent.ParsedData, S.TimeSignatureEvent.ParsedData, S.AnchorEvent.ParsedData)
        rec.ev()
        if len(claimants(types, case["line"])) > 1:
            rec.violation("disjointness", f"string {case['line']!r} claimed by two kinds", case)
        return
    secs = [(n, b) for n, b in case["sections"]]
    text, out, log = parse_obs(rec, secs, None)
    rec.ev()
    if not out.ok:
        rec.violation("locality", f"rejected with {harness.exc_str(out.exc)}", case)
        return
    check_dispatch(rec, log, out.logs, case)
    if case.get("direct"):
        for _ in range(3):  # once per form
            direct_entry_stage(rec, [(n, b) for n, b in secs if n == case["direct"]], out.chart)
    if case.get("baseline_sections"):
        t0, o0, _ = parse_obs(rec, [(n, b) for n, b in case["baseline_sections"]], None)
        if o0.ok and observe.digest(harness.obs(o0.chart)) != observe.digest(harness.obs(out.chart)):
            rec.violation("locality", "parsed events differ from the baseline without the unparsable lines", case)
        if "quiet" in case:
            with harness.quiet(case["quiet"]):
                qo = harness.parse(text)
            probes.drain()
            if not qo.ok or (o0.ok and observe.digest(harness.obs(o0.chart)) != observe.digest(harness.obs(qo.chart))):
                rec.violation("locality", "with the library's reports silenced the chart is rejected or parses to other events", case)
