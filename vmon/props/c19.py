"""C19 — a parsed chart is an immutable value under all read-only use.

Monitor: snapshot-before/after around every operation of seeded read-only operation sequences
(full public observation incl. the instrument map's key structure, and equality with an untouched
identically parsed twin in both directions); icontract snapshot/ensure on Chart.__getitem__ and
Chart.notes_per_second (successful calls); setattr/delattr probes on every event and track class.
"""
from __future__ import annotations

import copy
import hashlib
from datetime import timedelta

from vmon import contracts, gen, harness, model, observe

ID = "C19"
LEVEL = "exploration"
RULE = ("one case = one parsed chart (0..6 tracks, incl. empty tracks) driven through a seeded sequence of 5-120 read-only "
        "operations (rate queries in every argument form for present/absent/note-less tracks and bad intervals, subscripts "
        "by all 10 instruments, map and sequence protocol reads, tick-to-time queries valid and failing, str/repr, "
        "==/!= with twin/self/foreign objects, hash of every event kind, derived attributes, copy), then setattr/delattr "
        "probes; evaluations = before/after snapshot comparisons + assignment probes; distinct non-trivial = distinct "
        "(chart text, operation sequence) pairs with >= 5 operations of which >= 1 targets something absent or failing")
ASSUMPTIONS = [
    "observation = vmon.observe.observe (public attributes only) + key structure of chart.instrument_tracks",
    "an operation may raise (KeyError for an absent instrument, ValueError for failing queries): only a change of state counts",
    "twin = second parse of the same text, never operated on",
]
OPS = ["nps", "nps", "nps", "subscript", "subscript", "subscript_get", "map_protocol", "bpm_protocol", "query", "query_bad",
       "render", "compare", "hash", "derived", "copy", "track_reads", "copy_use", "ordering", "subscript_text"]


def required(tier):
    return ["op:subscript:absent", "op:nps:absent_instrument", "op:nps:absent_difficulty", "op:nps:noteless", "op:nps:bad_interval",
            "op:nps:ok", "op:render", "op:hash", "op:derived", "op:query_bad", "op:compare", "assign:NoteEvent", "assign:InstrumentTrack",
            "assign:BPMEvent", "assign:StarPowerEvent", "assign:TextEvent", "chart_parsed_with_a_selection"]


def shards(tier, seed):
    n = 16 if tier == "quick" else 48
    per = 30 if tier == "quick" else 500
    return [{"name": f"ops-{i}", "count": per} for i in range(n)]


# ------------------------------------------------------------------------------------------ operations
def do_op(chart, twin, name: str, rng) -> str:
    """Performs one read-only operation; returns a class label. Exceptions of the operation itself are its outcome."""
    I, D = harness.Instrument, harness.Difficulty
    be = chart.sync_track.bpm_events
    present = [(i, d) for i, m in chart.instrument_tracks.items() for d in m]
    if name == "nps":
        r = rng.random()
        if present and r < 0.55:
            i, d = rng.choice(present)
        else:
            i, d = rng.choice(list(I)), rng.choice(list(D))
        tr = chart.instrument_tracks.get(i, {}).get(d) if i in chart.instrument_tracks else None
        form = rng.choice(["none", "tick", "tick2", "none_tick", "ts", "ts2"])
        hi = max([n.tick for n in tr.note_events], default=100) if tr is not None else 100
        a, b = rng.randint(0, hi + 2), rng.randint(0, hi + 2)
        if rng.random() < 0.7:
            a, b = min(a, b), max(a, b)
        args = {"none": (), "tick": (a,), "tick2": (a, b), "none_tick": (None, b),
                "ts": (timedelta(microseconds=a * 1000),), "ts2": (timedelta(microseconds=a * 1000), timedelta(microseconds=b * 1000))}[form]
        try:
            chart.notes_per_second(i, d, *args)
            return "nps:ok"
        except ValueError:
            if i not in [p[0] for p in present]:
                return "nps:absent_instrument"
            if (i, d) not in present:
                return "nps:absent_difficulty"
            if tr is not None and not tr.note_events:
                return "nps:noteless"
            return "nps:bad_interval"
    if name == "subscript":
        i = rng.choice(list(I))
        absent = i not in [p[0] for p in present]
        try:
            chart[i]
        except KeyError:
            pass
        return "subscript:absent" if absent else "subscript:present"
    if name == "subscript_text":
        # what a caller might pass for "an instrument" besides the member: its value, its name, a section spelling, another enum's
        # member, nonsense — the answer may be a KeyError (or a track map), the chart stays as it is
        for key in (rng.choice(list(I)).value, rng.choice(list(I)).name, rng.choice(["Drums", "Single", "DoubleBass", "Keyboard", "drums", "GUITAR", "x", "", 0, None]),
                    rng.choice(list(D))):
            try:
                chart[key]
            except (KeyError, TypeError, ValueError, AttributeError):
                pass
        return "subscript_text"
    if name == "subscript_get":
        i, d = rng.choice(list(I)), rng.choice(list(D))
        try:
            chart[i].get(d)
            d in chart[i]
            len(chart[i])
        except KeyError:
            pass
        return "subscript_get"
    if name == "map_protocol":
        m = chart.instrument_tracks
        rng.choice(list(I)) in m
        len(m)
        list(m)
        [list(v.items()) for v in m.values()]
        m.get(rng.choice(list(I)))
        return "map_protocol"
    if name == "bpm_protocol":
        len(be)
        list(be)
        be[0]
        be[-1]
        be[0:2]
        be[0] in be
        list(reversed(be))
        be.index(be[-1])
        be.count(be[0])
        try:
            be[len(be)]
        except IndexError:
            pass
        return "bpm_protocol"
    if name == "query":
        t = rng.randint(0, be[-1].tick + 1000)
        _, idx = be.timestamp_at_tick(t)
        be.timestamp_at_tick(t, start_iteration_index=rng.randint(0, idx))
        be.timestamp_at_tick_no_optimize_return(t)
        return "query"
    if name == "query_bad":
        for args, kw in (((-1,), {}), ((-(10**9),), {}), ((0,), {"start_iteration_index": len(be)}),
                         ((0,), {"start_iteration_index": len(be) + 5})):
            try:
                be.timestamp_at_tick(*args, **kw)
            except ValueError:
                pass
        if len(be) > 1:
            try:
                be.timestamp_at_tick(be[1].tick - 1, start_iteration_index=1)
            except ValueError:
                pass
        return "query_bad"
    if name == "render":
        str(chart), repr(chart), str(chart.metadata), repr(chart.metadata), str(chart.sync_track), repr(chart.sync_track)
        str(chart.global_events_track), repr(chart.global_events_track), repr(be), str(be)
        for ev in all_events(chart):
            str(ev), repr(ev)
        for i, d in present:
            str(chart.instrument_tracks[i][d]), repr(chart.instrument_tracks[i][d])
        return "render"
    if name == "compare":
        chart == twin, chart != twin, chart == chart, chart == None, chart != 5, chart == "x"  # noqa: E711
        chart.metadata == twin.metadata, chart.sync_track == twin.sync_track
        chart.global_events_track == twin.global_events_track
        for i, d in present:
            chart.instrument_tracks[i][d] == twin.instrument_tracks[i][d]
            chart.instrument_tracks[i][d] != object()
        for ev in all_events(chart)[:40]:
            ev == ev, ev != 3
        return "compare"
    if name == "hash":
        for ev in all_events(chart):
            try:
                hash(ev)
            except TypeError:
                pass
        for i, d in present:
            for n in chart.instrument_tracks[i][d].note_events[:50]:
                hash(n.note), hash(n.hopo_state)
                if n.star_power_data is not None:
                    try:
                        hash(n.star_power_data)
                    except TypeError:
                        pass
        try:
            {ev for ev in all_events(chart)}
        except TypeError:
            pass
        return "hash"
    if name == "derived":
        for i, d in present:
            tr = chart.instrument_tracks[i][d]
            tr.last_note_end_timestamp, tr.header_tag
            for n in tr.note_events:
                n.end_tick, n.longest_sustain, n.end_timestamp, n.note.is_chord()
            for s in tr.star_power_events:
                s.end_tick, s.tick_is_during_event(rng.randint(0, 1000)), s.tick_is_after_event(rng.randint(0, 1000))
        return "derived"
    if name == "copy":
        import pickle

        copy.copy(chart)
        for fn in (copy.deepcopy, lambda x: pickle.loads(pickle.dumps(x))):
            try:
                fn(chart)
                for i, d in present[:2]:
                    tr = chart.instrument_tracks[i][d]
                    fn(tr)
                    for n in tr.note_events[:3]:
                        fn(n)
            except Exception:  # noqa  (whether a chart can be deep-copied / pickled is not stated; that trying leaves it alone is)
                pass
        for i, d in present[:2]:
            copy.copy(chart.instrument_tracks[i][d])
        return "copy"
    if name == "copy_use":
        # read-only use THROUGH a copy: a shallow copy shares the tracks and events, so rates, subscripts, derived attributes and
        # renderings asked of the copy reach the same objects (whether deep copies are possible is not stated; that using one leaves
        # the original alone is)
        for fn in (copy.copy, copy.deepcopy):
            try:
                c2 = fn(chart)
            except Exception:  # noqa
                continue
            for i, d in present[:2]:
                try:
                    c2.notes_per_second(i, d)
                    c2.notes_per_second(i, d, 0, 10**6)
                except ValueError:
                    pass
                tr2 = c2.instrument_tracks[i][d]
                tr2.last_note_end_timestamp, tr2.header_tag
                [(n.end_tick, n.end_timestamp) for n in tr2.note_events[:20]]
            try:
                c2[rng.choice(list(I))]
            except KeyError:
                pass
            str(c2), repr(c2)
            c2.sync_track.bpm_events.timestamp_at_tick_no_optimize_return(be[-1].tick + 7)
            c2 == chart, chart == c2
        return "copy_use"
    if name == "ordering":
        # ordering and container protocols on events and tracks (each may be unsupported: TypeError is an answer)
        evs = all_events(chart)
        for fn in (sorted, min, max):
            try:
                fn(evs[:30])
            except (TypeError, ValueError):
                pass
        try:
            d_ = {ev: k for k, ev in enumerate(evs[:60])}
            [d_[ev] for ev in evs[:60]]
            evs[0] in set(evs[:60])
        except (TypeError, IndexError):
            pass
        for i, d in present:
            tr = chart.instrument_tracks[i][d]
            bool(tr), bool(tr.note_events), bool(chart.instrument_tracks[i])
            try:
                sorted(tr.note_events, key=lambda n: n.tick), tr.note_events.index(tr.note_events[-1]), tr.note_events.count(tr.note_events[0])
            except (TypeError, IndexError, ValueError, AttributeError):
                pass
        bool(chart.metadata), bool(be), bool(chart.sync_track)
        return "ordering"
    if name == "track_reads":
        for i, d in present:
            tr = chart.instrument_tracks[i][d]
            sorted(tr.note_events, key=lambda e: -e.tick)
            max(tr.note_events, key=lambda e: e.end_timestamp, default=None)
            list(reversed(tr.star_power_events)), tr.track_events[:3], len(tr.note_events)
        [e.value for e in chart.global_events_track.text_events]
        sorted(chart.global_events_track.lyric_events, key=lambda e: e.value)
        return "track_reads"
    raise RuntimeError(name)


def all_events(chart) -> list:
    st, ge = chart.sync_track, chart.global_events_track
    evs = list(st.bpm_events) + list(st.time_signature_events) + list(st.anchor_events)
    evs += list(ge.text_events) + list(ge.section_events) + list(ge.lyric_events)
    for m in chart.instrument_tracks.values():
        for tr in m.values():
            evs += list(tr.note_events)[:60] + list(tr.star_power_events) + list(tr.track_events)
    return evs


def event_hashes(chart) -> list:
    out = []
    for ev in all_events(chart)[:80]:
        try:
            out.append((type(ev).__name__, hash(ev)))
        except TypeError:
            out.append((type(ev).__name__, "unhashable"))
    return out


def state(chart, twin):
    # canonical observation + equality with the twin + the ORDER-SENSITIVE public views (iteration order of the
    # instrument map and of each difficulty map, str() and repr() of the chart)
    order = [(i.name, [d.name for d in m]) for i, m in chart.instrument_tracks.items()]
    rendered = hashlib.sha256((str(chart) + "\x00" + repr(chart)).encode("utf-8", "surrogatepass")).hexdigest()
    return (observe.digest(observe.observe(chart)), bool(chart == twin), bool(twin == chart), order, rendered, answers(chart))


def answers(chart):
    """What the chart ANSWERS is observable data as well: a fixed set of tick-to-time and rate queries, asked the same way
    before and after every operation (value, or the class of the exception)."""
    be = chart.sync_track.bpm_events
    ticks = sorted({0, 1} | {e.tick + d for e in list(be)[:6] + list(be)[-2:] for d in (-1, 0, 1) if e.tick + d >= 0})
    out = []
    was, _C19State.active = _C19State.active, False  # the snapshot contract is for the operations, not for this observer
    try:
        return _answers(chart, be, ticks, out)
    finally:
        _C19State.active = was


def _answers(chart, be, ticks, out):
    for t in ticks:
        for fn in (be.timestamp_at_tick, be.timestamp_at_tick_no_optimize_return):
            try:
                out.append(str(fn(t)))
            except Exception as e:  # noqa
                out.append(type(e).__name__)
    for inst, m in chart.instrument_tracks.items():
        for diff in m:
            for args in ((), (0, ticks[-1] + 5), (timedelta(0), timedelta(seconds=3))):
                try:
                    out.append(repr(chart.notes_per_second(inst, diff, *args)))
                except Exception as e:  # noqa
                    out.append(type(e).__name__)
    return out


def describe_change(before, after) -> str:
    import json

    if before[0] != after[0]:
        a, b = json.loads(before[0]), json.loads(after[0])
        for k in a:
            if a[k] != b[k]:
                if k == "keys":
                    return f"instrument map key structure changed from {a[k]} to {b[k]}"
                return f"observation section '{k}' changed"
    if before[3] != after[3]:
        return f"iteration order of chart.instrument_tracks changed from {before[3]} to {after[3]}"
    if before[1:3] == after[1:3] and before[4] != after[4]:
        return "str(chart) / repr(chart) changed"
    if before[1:3] == after[1:3] and before[5] != after[5]:
        k = next(i for i, (a, b) in enumerate(zip(before[5], after[5])) if a != b)
        return f"the chart's answers to fixed tick-to-time / rate queries changed (answer #{k}: {before[5][k]} -> {after[5][k]})"
    return f"equality with the twin changed from (chart==twin, twin==chart) = {before[1:3]} to {after[1:3]}"


# ------------------------------------------------------------------------------------------ assignment probes
def assignment_probes(rec, chart, case) -> None:
    import dataclasses

    st, ge = chart.sync_track, chart.global_events_track
    objs = [st, ge]
    for seq in (st.bpm_events, st.time_signature_events, st.anchor_events, ge.text_events, ge.section_events, ge.lyric_events):
        if len(seq):
            objs.append(seq[0])
    for m in chart.instrument_tracks.values():
        for tr in m.values():
            objs.append(tr)
            for seq in (tr.note_events, tr.star_power_events, tr.track_events):
                if len(seq):
                    objs.append(seq[0])
    seen = set()
    for o in objs:
        cname = type(o).__name__
        if cname in seen:
            continue
        seen.add(cname)
        fields = [f.name for f in dataclasses.fields(o) if not f.name.startswith("_")] if dataclasses.is_dataclass(o) else \
            [k for k in vars(o) if not k.startswith("_")]
        for f in fields:
            old = getattr(o, f)
            for action in ("setattr", "delattr"):
                rec.ev()
                try:
                    if action == "setattr":
                        setattr(o, f, old)  # even re-assigning the same value must be rejected
                        setattr(o, f, None)
                    else:
                        delattr(o, f)
                    ok = True
                except (AttributeError, TypeError):
                    ok = False
                unchanged = hasattr(o, f) and getattr(o, f) is old
                if ok or not unchanged:
                    rec.violation("assignment-accepted", f"{action}({cname}, {f!r}) on a parsed object "
                                  f"{'succeeded' if ok else 'raised but changed the value'}",
                                  dict(case, probe=[cname, f, action]), f"assignment-accepted:{cname}")
                    return
        rec.cls(f"assign:{cname}")


# ------------------------------------------------------------------------------------------ contracts
class _C19State:
    twin = None
    active = False


def _snap_state(self):
    if not _C19State.active:
        return None
    return observe.digest(observe.observe(self))


def _post_unchanged(self, OLD):
    if OLD.state is None:
        return True
    contracts.counts["c19:getitem_or_nps_postcondition"] += 1
    if observe.digest(observe.observe(self)) != OLD.state:
        contracts.breach("C19", "Chart read-only method", "the chart's public observation changed across a successful call")
    return True


def install_contracts():
    if not contracts.HAVE_ICONTRACT or "c19" in contracts.installed:
        return
    import icontract

    C = harness.Chart
    for name in ("__getitem__", "notes_per_second"):
        orig = getattr(C, name)
        wrapped = icontract.snapshot(_snap_state, name="state", enabled=True)(icontract.ensure(_post_unchanged, error=contracts.ContractBreach, enabled=True)(orig))
        setattr(C, name, wrapped)
    contracts.installed["c19"] = True


# ------------------------------------------------------------------------------------------ driver
def _questions(chart):
    """zero-argument read-only uses of one chart: tick-to-time questions (plain, hinted, refused), rates (tick-bounded, time-bounded,
    failing), lookups, renderings, derived attributes"""
    be = chart.sync_track.bpm_events
    tt = [e.tick for e in be]
    ticks = sorted({0, 1, tt[-1] + 3} | {t + d for t in tt[:5] + tt[-3:] for d in (-1, 0, 1) if t + d >= 0})
    qs = []
    for t in ticks:
        qs.append(lambda t=t: str(be.timestamp_at_tick_no_optimize_return(t)))
        qs.append(lambda t=t: (lambda r: (str(r[0]), r[1]))(be.timestamp_at_tick(t)))
    qs.append(lambda: be.timestamp_at_tick(-1))
    qs.append(lambda: be.timestamp_at_tick(0, start_iteration_index=len(be) + 1))
    qs.append(lambda: (lambda r: (str(r[0]), r[1]))(be.timestamp_at_tick(tt[-1] + 1, start_iteration_index=len(be) - 1)))
    I, D = harness.Instrument, harness.Difficulty
    for inst, m in chart.instrument_tracks.items():
        qs.append(lambda inst=inst: sorted(d.name for d in chart[inst]))
        for diff, tr in m.items():
            nt = [n.tick for n in tr.note_events][:4] or [0]
            for a in nt:
                qs.append(lambda inst=inst, diff=diff, a=a: chart.notes_per_second(inst, diff, a))
                qs.append(lambda inst=inst, diff=diff, a=a: chart.notes_per_second(inst, diff, a, a + 700))
            qs.append(lambda inst=inst, diff=diff: chart.notes_per_second(inst, diff))
            qs.append(lambda inst=inst, diff=diff: chart.notes_per_second(inst, diff, timedelta(0), timedelta(seconds=2)))
            qs.append(lambda tr=tr: str(tr.last_note_end_timestamp))
            qs.append(lambda tr=tr: tr.header_tag)
            qs.append(lambda tr=tr: hash(tr) * 0)  # tracks as set members / dict keys (a TypeError, consistently, is an answer too)
            qs.append(lambda tr=tr: [(n.end_tick, n.longest_sustain, str(n.end_timestamp)) for n in list(tr.note_events)[:6]])
    qs.append(lambda: chart.notes_per_second(I.KEYS, D.EASY))
    qs = qs[:160]
    for o_ in (chart, chart.sync_track, chart.sync_track.bpm_events, chart.global_events_track, chart.metadata):
        qs.append(lambda o_=o_: hash(o_) * 0)
    # (the last one renders; rendering is left out of the aborted-use stage: the standard library's own repr machinery - the guard set
    # of dataclasses' generated __repr__ - is not abort-safe, and a '...' it then prints is no fault of the code under observation)
    qs.append(lambda: len(str(chart)) + len(repr(chart.sync_track)) + sum(len(str(tr_)) for m_ in chart.instrument_tracks.values() for tr_ in m_.values()))
    return qs


def extra_stages(rec, case, chart, twin, before, rng) -> bool:
    """(a) heavy use: hundreds of repetitions of the same read-only questions on ONE chart; (b) the chart shared by four threads asking
    at once; (c) read-only uses cut short by an asynchronous exception the application swallows; (d) every attribute of every object
    enumerated the way debuggers and serialisers do (inspect.getmembers). After each: the chart is the chart it was."""
    text, seed_key = case["text"], case["opseed"]
    rc = {"text": text, "ops": case["ops"], "opseed": seed_key, "want": case.get("want"), "stages": True}
    was, _C19State.active = _C19State.active, False
    try:
        qs = _questions(chart)

        def settle(label) -> bool:
            try:
                after = state(chart, twin)
            except Exception as e:  # noqa
                rec.ev()
                rec.violation("state-changed", f"after {label} the chart's public attributes can no longer be read: {harness.exc_str(e)}", rc, f"state-changed-by:{label}")
                return False
            rec.ev()
            if after != before:
                rec.violation("state-changed", f"{label} changed the chart: {describe_change(before, after)}", rc, f"state-changed-by:{label}")
                return False
            rec.cls("stage:" + label)
            return True

        want = [harness._norm(q) for q in qs]
        for r in range(4):
            for k, q in enumerate(qs):
                got = harness._norm(q)
                if got != want[k]:
                    rec.ev()
                    rec.violation("state-changed", f"read-only question #{k} put to one chart for the {r + 2}th time (after {(r + 1) * len(qs)} other questions) is answered {got[:120]}; "
                                  f"the first time {want[k][:120]}", rc, "state-changed-by:heavy_use")
                    return False
        if not settle("heavy_use:each_question_asked_5_times_over"):
            return False
        bad = harness.shared_use(rec, qs, len(text), rounds=2, plain_rounds=8)
        rec.ev()
        if bad:
            rec.violation("state-changed", "one chart used read-only by 4 threads at once: " + bad, rc, "state-changed-by:shared_use_by_threads")
            return False
        if not settle("shared_use_by_4_threads"):
            return False
        n = harness.interrupted(lambda: [harness._norm(q) for q in qs[:-1]], rng, 6, rec)
        if n:
            again = [harness._norm(q) for q in qs]
            rec.ev()
            if again != want:
                k = next(i for i in range(len(want)) if again[i] != want[i])
                rec.violation("state-changed", f"after {n} read-only uses were cut short by an asynchronous exception (swallowed by the application), question #{k} is "
                              f"answered {again[k][:120]}; before, {want[k][:120]}", rc, "state-changed-by:aborted_read_only_use")
                return False
            if not settle("read_only_uses_aborted_by_an_asynchronous_exception"):
                return False
        # events of two charts handled together: the chart's and its twin's events in one set / one dict / one sorted list behave as
        # equal values do (eq implies equal hashes; a dict keyed by the chart's events finds the twin's; sorting by tick is stable)
        ev_c, ev_t = all_events(chart), all_events(twin)
        rec.ev()
        try:
            ok_sets = len(ev_c) == len(ev_t) and all(a == b and hash(a) == hash(b) for a, b in zip(ev_c, ev_t)) and \
                len(set(ev_c) | set(ev_t)) == len(set(ev_c)) and all({a: k for k, a in enumerate(ev_c)}.get(b) is not None for b in ev_t[:50])
            both = sorted(ev_c[:60] + ev_t[:60], key=lambda e: e.tick)
            ok_sets = ok_sets and all(both[k].tick <= both[k + 1].tick for k in range(len(both) - 1))
        except Exception as e:  # noqa
            ok_sets = f"raised {harness.exc_str(e)}"
        if ok_sets is not True:
            rec.violation("mutation", "the events of a chart and of its identically parsed twin, put in one set / dict / sorted list, do not behave as equal values "
                          f"({ok_sets if isinstance(ok_sets, str) else 'equal events with different hashes, or a lookup that misses'})", rc, "twin-events-not-interchangeable")
            return False
        if not settle("events_of_chart_and_twin_in_one_set_and_dict"):
            return False
        import inspect

        objs = [chart, chart.metadata, chart.sync_track, chart.sync_track.bpm_events, chart.global_events_track]
        for m in chart.instrument_tracks.values():
            for tr in m.values():
                objs.append(tr)
                objs += list(tr.note_events)[:2] + list(tr.star_power_events)[:1] + list(tr.track_events)[:1]
        objs += list(chart.global_events_track.text_events)[:1] + list(chart.global_events_track.section_events)[:1] + list(chart.sync_track.bpm_events)[:1]
        for o in objs:
            try:
                inspect.getmembers(o)
            except Exception:  # noqa - an attribute that raises is not a state change
                rec.mon("getmembers_raised")
        if not settle("every_attribute_enumerated_with_inspect.getmembers"):
            return False
        return True
    finally:
        _C19State.active = was


def run_case(rec, case: dict) -> None:
    text, ops, seed_key = case["text"], case["ops"], case["opseed"]
    want = harness.pairs([tuple(p) for p in case["want"]]) if case.get("want") is not None else None
    a, b = harness.parse(text, want), harness.parse(text, want)
    if not (a.ok and b.ok):
        rec.diag(f"case did not parse: {harness.exc_str(a.exc or b.exc)}")
        return
    chart, twin = a.chart, b.chart
    _C19State.active = True
    try:
        # equality and stored fields BEFORE anything derived is read; then the first full observation (which reads every
        # derived attribute) is itself judged as a read-only operation
        raw_pre = observe.raw(chart)
        # hashes of a sample of events, taken BEFORE anything derived has been read from them (a hash that takes in lazily filled
        # caches changes when the cache fills: the event vanishes from the set / dict it was put in)
        hashes_pre = event_hashes(chart)
        hashes_twin = event_hashes(twin)  # stored fields, read before ANY comparison
        eq0 = (bool(chart == twin), bool(twin == chart))
        if not (eq0[0] and eq0[1]):
            rec.diag("twin differs from chart before any operation (C17's business); case skipped")
            return
        raw0 = observe.raw(chart)
        rec.ev()
        rec.cls("op:first_comparison_with_twin")
        if raw0 != raw_pre:
            import json as _json

            a_, b_ = _json.loads(raw_pre), _json.loads(raw0)
            where = [k for k in a_ if a_[k] != b_[k]]
            rec.violation("state-changed", f"comparing the chart with its twin (==) changed the chart's stored data: sections {where}"
                          + (f": key structure {a_['keys']} -> {b_['keys']}" if "keys" in where else ""),
                          {"text": text, "ops": [], "opseed": seed_key, "want": case.get("want")}, "state-changed-by:comparison")
            return
        before = state(chart, twin)
        rec.ev()
        hashes_now = event_hashes(chart)
        if hashes_now != hashes_pre:
            k = next(i for i, (a, b) in enumerate(zip(hashes_pre, hashes_now)) if a != b)
            rec.violation("mutation", f"hash() of event #{k} ({hashes_pre[k][0]}) changed merely because the chart was observed (derived attributes read, "
                          "rendered, compared): an event put in a set or used as a dict key is lost", {"text": text, "op": "first_observation"}, "hash-changes-on-read")
            return
        if hashes_pre != hashes_twin:
            k = next(i for i, (a, b) in enumerate(zip(hashes_pre, hashes_twin)) if a != b)
            rec.violation("mutation", f"event #{k} ({hashes_pre[k][0]}) of two identical parses compares equal but hashes differently before any use",
                          {"text": text, "op": "first_observation"}, "hash-differs-between-twins")
            return
        rec.ev()
        rec.cls("op:first_observation_reads_derived_attributes")
        raw1 = observe.raw(chart)
        if raw1 != raw0 or not (before[1] and before[2]):
            import json as _json

            a, b = _json.loads(raw0), _json.loads(raw1)
            where = [k for k in a if a[k] != b[k]]
            tw = [k for k in a["tracks"] if a["tracks"][k] != b["tracks"].get(k)] if "tracks" in where else []
            rec.violation("state-changed", "reading the chart's public and derived attributes (end_tick, longest_sustain, "
                          f"last_note_end_timestamp, header_tag, ...) changed its stored data: sections {where} {tw[:3]}; "
                          f"equality with the twin now {before[1:3]}", {"text": text, "ops": [], "opseed": seed_key, "want": case.get("want")},
                          "state-changed-by:reading-derived-attributes")
            return
        import random

        rng = random.Random(seed_key)
        absentish = 0
        for k, name in enumerate(ops):
            try:
                label = do_op(chart, twin, name, rng)
            except Exception as e:  # an operation failing in an undocumented way is not a state change
                label = f"{name}:raised:{type(e).__name__}"
                rec.mon(f"op_raised:{name}:{type(e).__name__}")
            try:
                after = state(chart, twin)
            except Exception as e:  # noqa - it could be observed before the operation and cannot be observed after it
                rec.ev()
                rec.violation("state-changed", f"after read-only operation #{k} '{label}' the chart's public attributes can no longer be read: "
                              f"{harness.exc_str(e)}", {"text": text, "ops": ops[:k + 1], "opseed": seed_key, "want": case.get("want")},
                              f"state-changed-by:{label}")
                return
            rec.ev()
            rec.cls("op:" + label)
            if label in ("subscript:absent", "nps:absent_instrument", "nps:absent_difficulty", "nps:noteless", "nps:bad_interval", "query_bad"):
                absentish += 1
            if after != before:
                what = describe_change(before, after)
                mech = f"state-changed-by:{label}"
                rec.violation("state-changed", f"read-only operation #{k} '{label}' changed the chart: {what}",
                              {"text": text, "ops": ops[:k + 1], "opseed": seed_key, "want": case.get("want")}, mech)
                return
            before = after
        if case.get("stages") and not rec.violations:
            if not extra_stages(rec, case, chart, twin, before, rng):
                return
        for bch in contracts.drain("C19"):
            rec.violation("contract", bch["message"], {"text": text, "ops": ops, "opseed": seed_key, "want": case.get("want")}, "state-changed-in-successful-call")
        assignment_probes(rec, chart, {"text": text, "ops": [], "opseed": seed_key, "want": case.get("want")})
        if len(ops) >= 5 and absentish:
            rec.key([text, ops, seed_key])
    finally:
        _C19State.active = False


def run_shard(shard, rec, tier, seed):
    harness.setup()
    install_contracts()
    for i in range(shard["count"]):
        rng = harness.rng_for(seed, ID, shard["name"], i)
        prof = ["realistic", "hostile"][i % 2]
        pairs = None
        if i % 5 == 0:
            pairs = []  # chart without tracks
        case = gen.gen_chart(rng, prof, n_groups=rng.choice([0, 0, 1, 3, 12, 30]), pairs=pairs,
                             n_tracks=rng.choice([1, 2, 3, 6]), n_globals=rng.choice([0, 2, 8]))
        n_ops = rng.choice([5, 10, 20, 40, 120])
        ops = [rng.choice(OPS) for _ in range(n_ops)]
        c = {"text": case["text"], "ops": ops, "opseed": f"{seed}/{shard['name']}/{i}"}
        if i % 3 == 2:
            c["stages"] = True
        keys = sorted(case["truth"]["tracks"])
        if i % 4 == 1 and keys:
            # a selection that drops every difficulty of some instrument, keeps others, names absent pairs
            drop = keys[0].split("/")[0]
            c["want"] = [k.split("/") for k in keys if k.split("/")[0] != drop] + [["KEYS", "EASY"]]
            rec.cls("chart_parsed_with_a_selection")
        run_case(rec, c)
        if i < 1:
            rec.sample({"ops": ops[:12], "tracks": sorted(case["truth"]["tracks"]), "text_head": case["text"][:160]})
        if rec.full:
            break
    harness.finish(rec)


def replay(case, rec):
    harness.setup()
    install_contracts()
    run_case(rec, case)
