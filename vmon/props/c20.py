"""C20 — every module importable first; import order irrelevant.

Monitor: one fresh interpreter per import order (vmon/c20_child.py), an audit hook recording the
order in which chartparse modules actually began loading, and a structural snapshot of every
module's public names compared with the reference order's snapshot.
"""
from __future__ import annotations

import itertools
import json
import os
import random
import subprocess

from vmon import env

ID = "C20"
LEVEL = "exploration"
RULE = ("one case = one import order executed in its own fresh interpreter (a first-import, an ordered "
        "pair, or a longer prefix/permutation of the package's modules, with a rotating import form); "
        "distinct = distinct (form, module) step sequences; non-trivial = the interpreter really ran "
        "and reported an outcome (exit status + snapshot or failing step)")
ASSUMPTIONS = [
    "the package's modules are the *.py files in chartparse/ other than __init__.py, discovered at run time",
    "public name = module attribute not starting with an underscore; identity compared structurally "
    "(alphabetically first (module, name) bound to the same object, type, __module__, __qualname__)",
    "first-imports and ordered pairs are exhaustive; longer orders are sampled",
]
FORMS = ["import", "importlib", "from_pkg", "from_mod", "star"]
CHILD = os.path.join(env.VERIF, "vmon", "c20_child.py")


def modules() -> list[str]:
    d = os.path.join(env.REPO, "chartparse")
    return sorted(f[:-3] for f in os.listdir(d) if f.endswith(".py") and f != "__init__.py")


def exhaustive(tier):
    return True  # all first-imports and all ordered pairs (longer orders are sampled on top)


def required(tier):
    return ["first_import", "ordered_pair", "longer_order", "started_with_python_-c", "started_as_script_file",
            "loaded_modules_used_between_the_imports", "form:star"] + \
        ["options:" + " ".join(f) for f in FLAGSETS]


OWN_CONFIGS = True  # the runner's interpreter-configuration clones do not apply: this check starts its own interpreters
# interpreter options under which "a fresh interpreter" is started besides the default: optimised (asserts and `if __debug__:`
# blocks vanish; docstrings too), isolated (no PYTHON* variables, no script directory on sys.path), without `site`.
# A flagged run is compared with a reference run under THE SAME options: the property is about import order, not about options.
# "+logging-debug" is not an interpreter option: the application configured logging for DEBUG (logging.basicConfig(level=DEBUG))
# BEFORE its first chartparse import, so import-time code that asks `logger.isEnabledFor(DEBUG)` takes its other branch.
# "+zip": the package is imported from a ZIP archive on sys.path (zipimport: no __file__ on disk, no sibling data files, no directory
# to list) - a location like any other as far as importing goes.
FLAGSETS = [["-O"], ["-OO"], ["-I"], ["-S"], ["+logging-debug"], ["+zip"]]
_ZIP = None


def zipped_package() -> str:
    """the package's modules, as they are in the tree under observation now, in a zip archive (built once per shard, removed at exit)"""
    global _ZIP
    if _ZIP is None:
        import atexit
        import shutil
        import tempfile
        import zipfile

        d = tempfile.mkdtemp(prefix="vmon-c20-zip-")
        atexit.register(shutil.rmtree, d, True)
        _ZIP = os.path.join(d, "chartparse-src.zip")
        src = os.path.join(env.REPO, "chartparse")
        with zipfile.ZipFile(_ZIP, "w") as z:
            for root, dirs, files in os.walk(src):
                dirs[:] = [x for x in dirs if x != "__pycache__"]
                for f in files:
                    if not f.endswith((".pyc", ".pyo")):
                        full = os.path.join(root, f)
                        z.write(full, os.path.join("chartparse", os.path.relpath(full, src)))
    return _ZIP


def all_orders(tier: str, seed: int) -> list[tuple[list[str], list[str]]]:
    mods = modules()
    orders = [[m] for m in mods]
    orders += [[a, b] for a, b in itertools.permutations(mods, 2)]
    rng = random.Random(f"{seed}/C20/orders")
    n_long = 40 if tier == "quick" else 1500
    for i in range(n_long):
        k = rng.choice([3, 4, 5, len(mods), len(mods)])
        orders.append(rng.sample(mods, k))
    out = [(o, []) for o in orders]
    pairs = [[a, b] for a, b in itertools.permutations(mods, 2)]
    for fl in FLAGSETS:
        out += [([m], fl) for m in mods]
        out += [(p, fl) for p in (rng.sample(pairs, min(20, len(pairs))) if tier == "quick" else pairs)]
    return out


def shards(tier, seed):
    orders = all_orders(tier, seed)
    n = 16
    return [{"name": f"orders-{i}", "orders": [o for o, _ in orders[i::n]], "flags": [f for _, f in orders[i::n]], "offset": i, "stride": n}
            for i in range(n)]


_SRC = None


def run_child(steps, mods, timeout=120, dash_c=True, pyflags=(), use_between=False):
    # `python -c <program>`: the interpreter has no main FILE (no __main__.__file__), exactly like `python -c 'import chartparse.x'`;
    # every fourth-or-so order is also run as a script file
    global _SRC
    if _SRC is None:
        _SRC = open(CHILD).read()
    head = [env.PY, "-X", "faulthandler", *[f for f in pyflags if not f.startswith("+")]] + (["-c", _SRC] if dash_c else [CHILD])
    p = subprocess.run(head + [zipped_package() if "+zip" in pyflags else env.REPO, json.dumps({"steps": steps, "modules": mods, "use_between": use_between,
                                                            "ambient": [f[1:] for f in pyflags if f.startswith("+")]})],
                       capture_output=True, text=True, timeout=timeout,
                       env={"PYTHONHASHSEED": "0", "PYTHONDONTWRITEBYTECODE": "1", "PATH": os.environ.get("PATH", "")},
                       cwd="/")
    line = (p.stdout or "").strip().splitlines()
    if p.returncode != 0 or not line:
        return {"crashed": True, "rc": p.returncode, "stderr": (p.stderr or "")[-600:]}
    return json.loads(line[-1])


def reference(mods, pyflags=()):
    """chart first (the order the pinned tree supports), then everything sorted."""
    return run_child([["import", "chart", None]], mods, pyflags=pyflags)


def pick_name(ref_snapshot, mod):
    names = ref_snapshot.get(mod) or {}
    own = sorted(n for n, v in names.items() if v[3] == f"chartparse.{mod}")
    if own:
        return own[0]
    return sorted(names)[0] if names else None


def judge(order, idx, mods, ref, rec, pyflags=()):
    steps = []
    for j, m in enumerate(order):
        form = FORMS[(idx + j) % len(FORMS)]
        name = None
        if form == "from_mod":
            name = pick_name(ref["snapshot"], m) if ref and ref.get("snapshot") else None
            if name is None:
                form = "import"
        steps.append([form, m, name])
    dash_c = idx % 4 != 3
    use_between = len(order) >= 2 and idx % 3 == 1
    out = run_child(steps, mods, dash_c=dash_c, pyflags=pyflags, use_between=use_between)
    case = {"steps": steps, "modules": mods, "dash_c": dash_c, "pyflags": list(pyflags), "use_between": use_between}
    if use_between:
        rec.cls("loaded_modules_used_between_the_imports")
    rec.cls("started_with_python_-c" if dash_c else "started_as_script_file")
    rec.cls("options:" + (" ".join(pyflags) or "default"))
    rec.ev()
    rec.key([steps, list(pyflags)])
    rec.cls("first_import" if len(order) == 1 else "ordered_pair" if len(order) == 2 else "longer_order")
    rec.cls(f"form:{steps[0][0]}")
    if out.get("crashed"):
        rec.violation("interpreter-crashed", f"import order {order} killed the interpreter: rc={out['rc']} {out['stderr']}",
                      case, "import-crash")
        return
    rec.into("exec_orders", tuple(out["exec_order"]))
    rec.mon("modules_loaded", len(out["exec_order"]))
    f = out["failed"]
    if f:
        mech = (f"first-import-fails:{f['module']}" if f["step"] == 0 else "import-order-fails")
        rec.violation("import-failed",
                      f"fresh interpreter, steps {steps}: step {f['step']} ({f['form']} chartparse.{f['module']}) raised "
                      f"{f['exc']}: {f['msg']}; modules began loading in order {out['exec_order']}", case, mech)
        return
    rec.cls("succeeded")
    if ref and ref.get("used") and out.get("used"):
        # the modules loaded so far were USED (c20_child.smoke): same answers as in the interpreter that loaded everything
        bad = {k: (ref["used"].get(k), v) for k, v in out["used"].items() if k in ref["used"] and ref["used"][k] != v}
        rec.ev()
        rec.mon("entry_points_called_after_partial_imports", len(out["used"]))
        if bad:
            k0 = sorted(bad)[0]
            rec.violation("use-after-partial-import", f"after steps {steps} (modules loaded: {out['exec_order']}) the {k0} entry point answers {bad[k0][1]!r}; "
                          f"with the whole package loaded it answers {bad[k0][0]!r}", case, "loaded-module-unusable-without-siblings")
            return
    if ref and ref.get("used_final") and out.get("used_final"):
        bad = {k: (ref["used_final"].get(k), v) for k, v in out["used_final"].items() if ref["used_final"].get(k) != v}
        rec.ev()
        if bad:
            k0 = sorted(bad)[0]
            rec.violation("use-after-imports", f"after steps {steps}{' (with the loaded modules used between the imports)' if use_between else ''} and then "
                          f"loading the rest of the package, the {k0} entry point answers {bad[k0][1]!r}; in the reference interpreter it answers "
                          f"{bad[k0][0]!r}", case, "package-unusable-after-this-import-order")
            return
    if ref and ref.get("snapshot") and out["snapshot"] != ref["snapshot"]:
        diffs = []
        for m in sorted(set(ref["snapshot"]) | set(out["snapshot"])):
            a, b = ref["snapshot"].get(m, {}), out["snapshot"].get(m, {})
            for n in sorted(set(a) | set(b)):
                if a.get(n) != b.get(n):
                    diffs.append(f"{m}.{n}: reference {a.get(n)} vs {b.get(n)}")
        rec.violation("snapshot-differs", f"import order {order}: public names differ from the reference order: "
                      + "; ".join(diffs[:8]), case, "import-order-changes-names")
    else:
        rec.cls("snapshot_equal")
        rec.sample({"steps": steps, "exec_order": out["exec_order"]})


def run_shard(shard, rec, tier, seed):
    mods = modules()
    rec.mon("modules", 0)
    refs = {}
    flags = shard.get("flags") or [[] for _ in shard["orders"]]
    for k, order in enumerate(shard["orders"]):
        fl = tuple(flags[k])
        if fl not in refs:
            ref = reference(mods, fl)
            if ref.get("crashed") or ref.get("failed"):
                # even the reference order fails: every order is judged on exit status alone
                rec.diag(f"reference order (chart first) failed under options {list(fl)}: {ref}")
                ref = None
            refs[fl] = ref
        judge(order, shard["offset"] + k * shard["stride"], mods, refs[fl], rec, fl)
        if rec.full:
            break


def replay(case, rec):
    mods = case["modules"]
    fl = tuple(case.get("pyflags") or ())
    ref = reference(mods, fl)
    if ref.get("crashed") or ref.get("failed"):
        ref = None
    out = run_child(case["steps"], mods, dash_c=case.get("dash_c", True), pyflags=fl, use_between=case.get("use_between", False))
    rec.ev()
    if out.get("crashed"):
        rec.violation("interpreter-crashed", str(out), case, "import-crash")
    elif out["failed"]:
        f = out["failed"]
        rec.violation("import-failed", f"step {f['step']} ({f['form']} chartparse.{f['module']}) raised {f['exc']}: {f['msg']}",
                      case, "import-fails")
    elif ref and out["snapshot"] != ref["snapshot"]:
        rec.violation("snapshot-differs", "public names differ from the reference order", case)
    elif ref and (out.get("used_final") != ref.get("used_final") or
                  any(ref["used"].get(k) != v for k, v in (out.get("used") or {}).items() if k in (ref.get("used") or {}))):
        rec.violation("use-after-imports", "the loaded package answers differently from the reference interpreter", case)


def finalize(agg, tier):
    return {"modules": modules(), "distinct_module_load_orders": len(agg["sets"].get("exec_orders", ()))}
