"""C13 — track selection restricts the parse and tracks do not interfere.

Monitor: differential. Restricted parse vs unrestricted parse of the same text (observation equality per
selected track, metadata/sync/global unchanged, exactly selected ∩ present returned); parse before vs
after replacing one instrument section's body (valid, empty, garbage or INVALID content).
"""
from __future__ import annotations

from vmon import gen, harness, model, observe

ID = "C13"
LEVEL = "exploration"
RULE = ("one case = (chart with 0-40 tracks, selection) where selection is None, [], (), a singleton, a random subset, a superset, "
        "pairs absent from the file, with duplicates, as list or tuple; or (chart, section whose body is replaced by another "
        "valid body / empty / garbage / content that makes that section invalid); evaluations = observation comparisons "
        "(per selected track, the three shared sections, the key structure; per untouched track after a replacement); "
        "distinct non-trivial = distinct (text, selection) and (text, replacement) pairs on charts with >= 2 tracks that passed")
ASSUMPTIONS = [
    "selections are lists or tuples of (Instrument, Difficulty) pairs (the documented Sequence type)",
    "an invalid replaced section is never selected in the comparison parses; whether it raises when selected is not asserted here",
]


def required(tier):
    return ["sel:None", "sel:empty_list", "sel:empty_tuple", "sel:singleton", "sel:subset", "sel:superset", "sel:absent_only", "sel:duplicates",
            "empty_selection_on_nonempty_file", "replace:valid", "replace:empty", "replace:garbage", "replace:invalid_forced_first",
            "replace:invalid_disorder", "all_40_pairs_selected", "from_filepath_selection_history",
            "unhandled_sections_among_the_instrument_sections"]


def shards(tier, seed):
    n = 16 if tier == "quick" else 48
    return [{"name": f"sel-{i}", "count": 16 if tier == "quick" else 250} for i in range(n)]


def shared(ob):
    return observe.digest({k: ob[k] for k in ("metadata", "sync", "global")})


def equal_to_unrestricted(rec, full_chart, chart, case, label, when):
    """'each identical to the track an unrestricted parse produces': identical includes `==`, in both directions — the unrestricted
    chart has been observed and queried by now (derived attributes read, a rate asked), the restricted one is compared once
    untouched and once after its own observation"""
    try:
        for inst, inner in chart.instrument_tracks.items():
            for diff, tr in inner.items():
                other = full_chart.instrument_tracks.get(inst, {}).get(diff)
                if other is None:
                    continue
                rec.ev()
                rec.cls("selected_track_compared_with_==")
                if not (tr == other and other == tr) or tr != other or other != tr:
                    rec.violation("selected-track-unequal", f"track {inst.name}/{diff.name} parsed under selection {label} is not == the track of the "
                                  f"unrestricted parse ({when}) although every public field agrees", case, "selected-track-unequal")
                    return False
        for name in ("metadata", "sync_track", "global_events_track"):
            rec.ev()
            a, b = getattr(chart, name), getattr(full_chart, name)
            if not (a == b and b == a):
                rec.violation("selection-changes-shared", f"{name} parsed under selection {label} is not == the unrestricted parse's ({when})", case,
                              "selection-changes-shared-sections")
                return False
    except Exception as e:  # noqa
        rec.violation("selected-track-unequal", f"comparing with == raised {harness.exc_str(e)}", case, "selected-track-unequal")
        return False
    return True


def check_selection(rec, text, full_ob, present, sel, label, container, full_chart=None):
    want = None if sel is None else container(sel)
    case = {"text": text, "selection": None if sel is None else [list(p) for p in sel], "container": container.__name__ if sel is not None else None}
    out = harness.parse(text, harness.pairs(want) if want is not None else None) if want is None else \
        harness.parse(text, container(harness.pairs(list(want))))
    rec.ev()
    if not out.ok:
        rec.violation("restricted-parse-rejected", f"selection {label} ({case['selection']}) => {harness.exc_str(out.exc)} although the "
                      "unrestricted parse succeeds", case, f"restricted-rejected:{type(out.exc).__name__}")
        return False
    if full_chart is not None and not equal_to_unrestricted(rec, full_chart, out.chart, case, label, "restricted chart untouched"):
        return False
    ob = harness.obs(out.chart)
    expect = set(present) if sel is None else {f"{i}/{d}" for i, d in sel} & set(present)
    ok = True
    if full_chart is not None and not equal_to_unrestricted(rec, full_chart, out.chart, case, label, "both observed"):
        return False
    if set(ob["tracks"]) != expect:
        rec.violation("selection", f"selection {label} {case['selection']} on a file with tracks {sorted(present)} returned "
                      f"{sorted(ob['tracks'])}, expected {sorted(expect)}", case, f"selection:{label}")
        ok = False
    exp_keys = {}
    for k in expect:
        i, d = k.split("/")
        exp_keys.setdefault(i, []).append(d)
    if {k: sorted(v) for k, v in ob["keys"].items()} != {k: sorted(v) for k, v in exp_keys.items()}:
        rec.violation("selection-keys", f"selection {label}: instrument map structure {ob['keys']}, expected {exp_keys}", case,
                      f"selection-keys:{label}")
        ok = False
    rec.ev()
    if shared(ob) != shared(full_ob):
        rec.violation("selection-changes-shared", f"selection {label} changed metadata / sync track / global events", case,
                      "selection-changes-shared-sections")
        ok = False
    for k in expect & set(ob["tracks"]):
        rec.ev()
        if ob["tracks"][k] != full_ob["tracks"][k]:
            rec.violation("selected-track-differs", f"track {k} parsed under selection {label} differs from the unrestricted parse", case,
                          "selected-track-differs")
            ok = False
    if ok:
        rec.cls(f"sel:{label}")
        if sel is not None and len(sel) == 0 and present:
            rec.cls("empty_selection_on_nonempty_file")
        for p in (sel or []):
            rec.into("pairs_selected", f"{p[0]}/{p[1]}")
        if len(present) >= 2:
            rec.key([text, case["selection"], case["container"]])
    return ok


def path_history(rec, rng, text, full_ob, present, ppairs):
    """the same FILE read several times through Chart.from_filepath with different selections, one after the other:
    every answer must be the one its own selection demands, whatever was asked before"""
    import os
    import pathlib
    import tempfile

    d = tempfile.mkdtemp(prefix="vmon-c13-")
    harness.add_siblings(d)
    try:
        path = pathlib.Path(d) / "chart.chart"
        path.write_bytes(text.encode("utf-8"))
        seq = [[], None, [], None]
        if ppairs:
            sub = rng.sample(ppairs, max(1, len(ppairs) // 2))
            seq += [sub, None, tuple(sub), [], list(reversed(sub)), None]
        rng.shuffle(seq)
        seq = [[], None] + seq if rng.random() < 0.5 else [None, []] + seq
        for k, sel in enumerate(seq):
            rec.ev()
            case = {"text": text, "selection": None if sel is None else [list(p) for p in sel], "container": "list", "via_path_history":
                    [None if s is None else [list(p) for p in s] for s in seq[:k + 1]]}
            try:
                c = harness.Chart.from_filepath(path) if sel is None else harness.Chart.from_filepath(path, want_tracks=type(sel)(harness.pairs(list(sel))))
            except Exception as e:  # noqa
                rec.violation("restricted-parse-rejected", f"from_filepath #{k} with selection {case['selection']} raised {harness.exc_str(e)}", case,
                              "from_filepath-rejected")
                return
            ob = harness.obs(c)
            expect = set(present) if sel is None else {f"{i}/{d_}" for i, d_ in sel} & set(present)
            if set(ob["tracks"]) != expect:
                rec.violation("selection", f"from_filepath call #{k} of the history {case['via_path_history']} returned tracks "
                              f"{sorted(ob['tracks'])}, expected {sorted(expect)}", case, "selection-depends-on-earlier-from_filepath-calls")
                return
            if shared(ob) != shared(full_ob) or any(ob["tracks"][t] != full_ob["tracks"][t] for t in expect):
                rec.violation("selected-track-differs", f"from_filepath call #{k} (selection {case['selection']}): content differs from the "
                              "unrestricted from_file parse", case, "from_filepath-content-differs")
                return
        rec.cls("from_filepath_selection_history")
    finally:
        import shutil

        shutil.rmtree(d, ignore_errors=True)


def selections(rng, present_pairs):
    absent = [p for p in model.ALL_PAIRS if p not in present_pairs]
    out = [(None, "None", list), ([], "empty_list", list), ([], "empty_tuple", tuple)]
    if present_pairs:
        out.append(([rng.choice(present_pairs)], "singleton", rng.choice([list, tuple])))
        out.append((rng.sample(present_pairs, rng.randint(1, len(present_pairs))), "subset", rng.choice([list, tuple])))
        p = rng.choice(present_pairs)
        out.append(([p, p] + rng.sample(present_pairs, min(2, len(present_pairs))), "duplicates", list))
    if absent:
        out.append((present_pairs + rng.sample(absent, min(3, len(absent))), "superset", rng.choice([list, tuple])))
        out.append((rng.sample(absent, min(2, len(absent))), "absent_only", tuple))
    return out


def replacement(rng, kind, res):
    if kind == "valid":
        tm = model.TempoMap(res, [[0, 120000]])
        tr, body = gen.gen_track(rng, "realistic", res, tm, 50 * res, rng.choice([1, 5, 20]))
        return body
    if kind == "empty":
        return []
    if kind == "garbage":
        return [rng.choice(["garbage", "  0 = N 9 0", "", "[Song]", "  5 = S 64 1", "  0 = B 5"]) for _ in range(rng.randint(1, 6))]
    if kind == "invalid_forced_first":
        return ["  0 = N 0 0", "  0 = N 5 0", f"  {res} = N 1 0"]
    if kind == "invalid_disorder":
        return ["  999999 = E late", "  0 = E early", "  999999 = S 2 0", "  0 = S 2 5", "  0 = N 0 0"]
    raise RuntimeError(kind)


def check_replacement(rec, rng, case, full_ob, kind):
    secs = [(n, list(b)) for n, b in case["sections"]]
    inst_idx = [i for i, (n, _) in enumerate(secs) if n not in ("Song", "SyncTrack", "Events")]
    if len(inst_idx) < 2:
        return
    j = rng.choice(inst_idx)
    victim = secs[j][0]
    secs[j] = (victim, replacement(rng, kind, case["truth"]["resolution"]))
    text = gen.render_sections(secs)
    hdr = {model.header(i, d): (i, d) for i, d in model.ALL_PAIRS}
    others = [hdr[n] for i, (n, _) in enumerate(secs) if i in inst_idx and n != victim]
    rc = {"text": text, "baseline_text": case["text"], "victim": victim, "kind": kind, "others": [list(p) for p in others]}
    invalid = kind.startswith("invalid")
    out = harness.parse(text, harness.pairs(others)) if invalid else harness.parse(text)
    rec.ev()
    if not out.ok:
        rec.violation("interference", f"after replacing the body of [{victim}] ({kind}) the parse "
                      f"{'of the OTHER tracks only ' if invalid else ''}fails with {harness.exc_str(out.exc)}", rc, f"interference:{kind}")
        return
    ob = harness.obs(out.chart)
    ok = True
    for i, d in others:
        k = f"{i}/{d}"
        rec.ev()
        if ob["tracks"].get(k) != full_ob["tracks"].get(k):
            rec.violation("interference", f"track {k} changed when the body of [{victim}] was replaced ({kind})", rc, f"interference:{kind}")
            ok = False
    rec.ev()
    if shared(ob) != shared(full_ob):
        rec.violation("interference", f"metadata/sync/global events changed when the body of [{victim}] was replaced ({kind})", rc,
                      f"interference-shared:{kind}")
        ok = False
    if ok:
        rec.cls(f"replace:{kind}")
        rec.key([text, "replace"])
        if invalid:
            whole = harness.parse(text)
            if not whole.ok:
                rec.cls("invalid_unselected_section_really_invalid")
            # ... and when the invalid section IS among the selected ones (explicitly, or because nothing is excluded): the parse may
            # refuse the file with a documented error; if it returns a chart instead, every healthy selected track is in it, as parsed
            # alone - a selection never comes back silently short of tracks that exist in the file
            vpair = hdr[victim]
            for how, o2 in (("every track selected explicitly", harness.parse(text, harness.pairs(others[:1] + [vpair] + others[1:]))),
                            ("no selection", whole)):
                rec.ev()
                if not o2.ok:
                    if isinstance(o2.exc, harness.ALLOWED_ERRORS):
                        rec.cls("invalid_selected_section_refused")
                    else:
                        rec.violation("interference", f"[{victim}] made invalid ({kind}) and selected ({how}): the parse raised "
                                      f"{harness.exc_str(o2.exc)}, which is not one of the documented errors", rc, f"invalid-selected:wrong-error:{kind}")
                    continue
                ob2 = harness.obs(o2.chart)
                short = [f"{i}/{d}" for i, d in others if ob2["tracks"].get(f"{i}/{d}") != full_ob["tracks"].get(f"{i}/{d}")]
                if short:
                    rec.violation("interference", f"[{victim}] made invalid ({kind}) and selected ({how}): the parse returned a chart, but the healthy "
                                  f"selected track(s) {short[:4]} are missing from it or differ from the unrestricted parse", rc,
                                  f"invalid-selected:healthy-tracks-lost:{kind}")
                else:
                    rec.cls("invalid_selected_section_tolerated")


def sibling_edit(rec, rng, case) -> None:
    """Tracks do not interfere - also not afterwards: one section of the file is pasted under further headers (another difficulty of the
    same instrument, another instrument: identical bodies, identical star-power lines - what charters do all the time), the file is
    parsed, and the application then filters / clears / appends to the lists of ONE returned track in place. Every other track still
    shows what it showed."""
    secs = [(n, list(b)) for n, b in case["sections"]]
    inst = [(n, b) for n, b in secs if n not in ("Song", "SyncTrack", "Events") and b]
    if not inst:
        return
    donor, body = inst[0]
    hdr = {model.header(i, d): (i, d) for i, d in model.ALL_PAIRS}
    i0, d0 = hdr[donor]
    have = {n for n, _ in secs}
    extra = [h for h in (model.header(i0, d) for d in model.DIFFICULTIES if d != d0) if h not in have][:2] + \
        [h for h in (model.header(i, d0) for i in ("DRUMS", "KEYS", "BASS")) if h not in have][:1]
    if not extra:
        return
    text = gen.render_sections(secs + [(h, list(body)) for h in extra])
    out = harness.parse(text)
    rec.ev()
    if not out.ok:
        rec.violation("interference", f"[{donor}] pasted under {extra}: the chart is rejected with {harness.exc_str(out.exc)}", {"text": text, "sibling_edit": True},
                      "pasted-section-rejected")
        return
    before = harness.obs(out.chart)["tracks"]
    I, D = harness.Instrument, harness.Difficulty
    victim = out.chart.instrument_tracks[I[i0]][D[d0]]
    # the pasted-under sections alone / the donor alone: each selected track is the track of the unrestricted parse, as a value too (==)
    for pick in ([(i0, d0)], [hdr[h] for h in extra[:1]]):
        o1 = harness.parse(text, harness.pairs(pick))
        rec.ev()
        if o1.ok:
            pi, pd = pick[0]
            a = o1.chart.instrument_tracks.get(I[pi], {}).get(D[pd])
            b = out.chart.instrument_tracks.get(I[pi], {}).get(D[pd])
            try:
                same = a is not None and b is not None and bool(a == b) and bool(b == a)
            except Exception:  # noqa
                same = False
            if not same:
                rec.violation("interference", f"[{donor}] also stands under {extra}: track {pi}/{pd} parsed alone (selection) does not compare equal (==) to the same track "
                              "of the unrestricted parse", {"text": text, "sibling_edit": True}, "selected-track-differs-when-siblings-have-identical-bodies")
                return
    done = False
    for x in (victim.note_events, victim.star_power_events, victim.track_events):
        try:
            if isinstance(x, list):
                if x:
                    x.reverse()
                    del x[1:]
                else:
                    x.append(out.chart.sync_track.time_signature_events[0])
                done = True
        except Exception:  # noqa
            pass
    if not done:
        return
    rec.ev()
    try:
        after = {}
        for inst_, m in out.chart.instrument_tracks.items():
            for diff_, tr in m.items():
                if tr is not victim:
                    after[f"{inst_.name}/{diff_.name}"] = observe.observe_track(tr)
    except Exception as e:  # noqa
        rec.violation("interference", f"after the application edited the lists of track {i0}/{d0} in place, another track can no longer be read: {harness.exc_str(e)}",
                      {"text": text, "sibling_edit": True}, "edit-of-one-track-reaches-another")
        return
    bad = [k for k, v in after.items() if before.get(k) != v]
    if bad:
        rec.violation("interference", f"[{donor}] also stands under {extra}; after the application edited the lists of the returned track {i0}/{d0} in place, the tracks "
                      f"{bad[:4]} show other events than before", {"text": text, "sibling_edit": True}, "edit-of-one-track-reaches-another")
    else:
        rec.cls("one_tracks_lists_edited_in_place_siblings_with_identical_bodies_unchanged")


def late_entrant_chart(rng):
    """a song with 40-120 tempo changes in which one part plays throughout, one enters late (its first note lies dozens of tempo changes
    in), one plays only the intro, one has a single note near the end: what the tracks share - the tempo map - is walked very
    differently by each of them, in whatever order the sections stand"""
    res = rng.choice([192, 480, 96])
    n = rng.choice([40, 70, 120])
    step = rng.choice([res // 4, res // 2, res])
    tempos = [[k * step, gen.usable_n(rng.choice([90000, 120000, 133333, 150500, 180000]))] for k in range(n)]
    end = n * step + 8 * res

    def notes(lo, hi, gap):
        return [{"tick": t, "lanes": {str((t // gap) % 5): rng.choice([0, 0, gap // 2])}, "open": None, "forced": False, "tap": False}
                for t in range(lo, hi, gap)]

    parts = [("GUITAR/EXPERT", notes(0, end, res // 2)), ("BASS/EXPERT", notes((n - 4) * step, end, res // 2)),
             ("DRUMS/HARD", notes(0, 3 * step + 1, max(1, res // 4))), ("KEYS/EASY", notes((n - 1) * step + 1, (n - 1) * step + 2, 1)),
             ("GUITAR/HARD", notes(res, end, res))]
    rng.shuffle(parts)
    truth = {"resolution": res, "tempos": tempos, "timesigs": [[0, 4, None]],
             "tracks": {k: {"groups": g, "phrases": [[g[0]["tick"], res]] if g else [], "tevents": []} for k, g in parts}}
    return gen.render_truth(truth)


def run_shard(shard, rec, tier, seed):
    harness.setup()
    for i in range(shard["count"]):
        rng = harness.rng_for(seed, ID, shard["name"], i)
        nt = rng.choice([0, 1, 2, 3, 6, 12, 40]) if i % 8 else 40
        case = gen.gen_chart(rng, "hostile" if i % 3 == 0 else "realistic", n_tracks=nt, n_groups=rng.choice([0, 3, 10]),
                             n_globals=rng.choice([0, 3]), n_tempos=rng.choice([1, 3]))
        if i % 7 == 3:
            case = late_entrant_chart(rng)
            rec.cls("busy_tempo_map_with_a_part_that_enters_late")
        full = harness.parse(case["text"])
        if not full.ok:
            rec.diag(f"baseline rejected: {harness.exc_str(full.exc)}")
            continue
        full_ob = harness.obs(full.chart)
        cur_full = full.chart
        if i % 2:
            # sections the library does not handle ([ExpertVocals], [ProDrums] ...), holding note-like lines, before / between / after
            # the instrument sections: reported and ignored — their content is nobody's track, selected or not
            secs = [(n_, list(b)) for n_, b in case["sections"]]
            donors = [b for n_, b in secs if n_ not in ("Song", "SyncTrack", "Events") and b] or [["  0 = N 0 0", "  0 = N 5 0", "  96 = N 7 48", "  96 = S 2 10"]]
            for _ in range(rng.choice([1, 2, 3])):
                title = rng.choice(["ExpertVocals", "ProDrums", "HardGuitarCoop", "ExpertSingleOld", "EasyKeys2", "Foo", "ExpertRealBass", "PracticeEvents"])
                if title in [n_ for n_, _ in secs]:
                    continue
                body = list(rng.choice(donors))[: rng.choice([1, 5, 40])] if rng.random() < 0.7 else ["  0 = N 5 0", "  0 = N 0 0"]
                secs.insert(rng.choice([0, 3, len(secs), rng.randint(0, len(secs))]) if len(secs) >= 3 else len(secs), (title, body))
            text2 = gen.render_sections(secs, "\r\n" if "\r\n" in case["text"] else "\n")
            out2 = harness.parse(text2)
            rec.ev()
            c2 = {"text": text2, "selection": None, "container": None, "baseline_text": case["text"]}
            if not out2.ok:
                rec.violation("interference", f"with unhandled sections {[n_ for n_, _ in secs if n_ not in dict(case['sections'])]} inserted the chart is rejected: "
                              f"{harness.exc_str(out2.exc)}", c2, "unhandled-section-interferes")
                continue
            ob2 = harness.obs(out2.chart)
            if observe.digest(ob2) != observe.digest(full_ob):
                where = [k for k in full_ob if full_ob[k] != ob2[k]]
                bad = [k for k in set(full_ob["tracks"]) | set(ob2["tracks"]) if full_ob["tracks"].get(k) != ob2["tracks"].get(k)]
                rec.violation("interference", f"unhandled sections inserted (section order now {[n_ for n_, _ in secs]}): the parsed chart changed in {where} "
                              f"(tracks affected: {bad[:4]})", c2, "unhandled-section-interferes")
                continue
            rec.cls("unhandled_sections_among_the_instrument_sections")
            case = dict(case, text=text2)
            cur_full = out2.chart
        present = sorted(case["truth"]["tracks"])
        ppairs = [tuple(k.split("/")) for k in present]
        for pi, pd in ppairs[:2]:  # the unrestricted chart is a chart in use: a rate has been asked of it
            try:
                cur_full.notes_per_second(harness.Instrument[pi], harness.Difficulty[pd])
            except ValueError:
                pass
        for sel, label, container in selections(rng, ppairs):
            check_selection(rec, case["text"], full_ob, present, sel, label, container, cur_full)
            if rec.full:
                break
        for kind in ("valid", "empty", "garbage", "invalid_forced_first", "invalid_disorder"):
            check_replacement(rec, rng, case, full_ob, kind)
        if i % 3 == 1:
            sibling_edit(rec, rng, case)
        if i % 3 == 0 and "\r" not in case["text"]:
            path_history(rec, rng, case["text"], full_ob, present, ppairs)
        if i < 1:
            rec.sample({"tracks": present[:6], "selections_tried": [s[1] for s in selections(rng, ppairs)]})
        if rec.full:
            break
    harness.finish(rec)


def finalize(agg, tier):
    n = len(agg["sets"].get("pairs_selected", ()))
    if n == 40:
        agg["classes"]["all_40_pairs_selected"] = 1
    return {"pairs_selected_at_least_once": n}


def replay(case, rec):
    harness.setup()
    if "via_path_history" in case:
        import random

        full = harness.parse(case["text"])
        if full.ok:
            ob = harness.obs(full.chart)
            present = sorted(ob["tracks"])
            for _ in range(4):
                path_history(rec, random.Random(_), case["text"], ob, present, [tuple(k.split("/")) for k in present])
        return
    if case.get("sibling_edit"):
        import random

        secs = gen.split_sections(case["text"])
        sibling_edit(rec, random.Random(0), {"sections": secs})
        return
    if "victim" in case:
        base = harness.parse(case["baseline_text"])
        if not base.ok:
            return
        full_ob = harness.obs(base.chart)
        others = [tuple(p) for p in case["others"]]
        out = harness.parse(case["text"], harness.pairs(others)) if case["kind"].startswith("invalid") else harness.parse(case["text"])
        rec.ev()
        if not out.ok:
            rec.violation("interference", f"parse fails with {harness.exc_str(out.exc)}", case)
            return
        ob = harness.obs(out.chart)
        for i, d in others:
            if ob["tracks"].get(f"{i}/{d}") != full_ob["tracks"].get(f"{i}/{d}"):
                rec.violation("interference", f"track {i}/{d} changed", case)
        if shared(ob) != shared(full_ob):
            rec.violation("interference", "shared sections changed", case)
        if case["kind"].startswith("invalid"):
            hdr = {model.header(i, d): (i, d) for i, d in model.ALL_PAIRS}
            for o2 in (harness.parse(case["text"], harness.pairs(others[:1] + [hdr[case["victim"]]] + others[1:])), harness.parse(case["text"])):
                rec.ev()
                if not o2.ok:
                    if not isinstance(o2.exc, harness.ALLOWED_ERRORS):
                        rec.violation("interference", f"invalid selected section: {harness.exc_str(o2.exc)} is not a documented error", case)
                    continue
                ob2 = harness.obs(o2.chart)
                if any(ob2["tracks"].get(f"{i}/{d}") != full_ob["tracks"].get(f"{i}/{d}") for i, d in others):
                    rec.violation("interference", "invalid selected section: healthy selected tracks missing from the returned chart", case)
        return
    if case.get("baseline_text"):
        base, out2 = harness.parse(case["baseline_text"]), harness.parse(case["text"])
        rec.ev()
        if base.ok and (not out2.ok or observe.digest(harness.obs(out2.chart)) != observe.digest(harness.obs(base.chart))):
            rec.violation("interference", "unhandled sections change the parsed chart (or make it fail)", case)
        return
    full = harness.parse(case["text"])
    if not full.ok:
        return
    full_ob = harness.obs(full.chart)
    sel = None if case["selection"] is None else [tuple(p) for p in case["selection"]]
    check_selection(rec, case["text"], full_ob, sorted(full_ob["tracks"]), sel, "replay", tuple if case.get("container") == "tuple" else list)
