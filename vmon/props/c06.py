"""C06 — sections are framed and routed to the right parser and track key.

Monitors: SectionProbe (what each section parser actually receives vs the ground-truth body lines),
observation equality across renderings of one spec (section permutations, LF/CRLF, BOM by path),
LogProbe on chartparse.chart (unknown sections reported), exception type for missing required sections.
"""
from __future__ import annotations

import os
import shutil
import tempfile

from vmon import env, gen, harness, mcheck, model, observe, probes

ID = "C06"
LEVEL = "exploration"
RULE = ("one case = one rendering of one chart spec (a permutation of its sections, LF or CRLF, with or without BOM when read "
        "by path, with 0-4 unknown sections of arbitrary bodies inserted anywhere) parsed by Chart.from_file / from_filepath; "
        "evaluations = per-section framing checks (lines received by the section's parser == body lines), routing/label "
        "checks, unknown-section report checks, cross-rendering observation equalities, missing-required-section checks; "
        "distinct non-trivial = distinct rendered texts with >= 4 sections that passed all of them; each of the 40 headers "
        "is exercised alone and all 40 together")
ASSUMPTIONS = [
    "BOM only through from_filepath (the statement says 'when read by path')",
    "unknown sections: names that are not one of the 43 recognised headers (case variants of real headers are not generated); "
    "bodies are any lines except the exact strings '{' and '}'",
    "instrument map compared order-insensitively",
]
UNKNOWN = ["Foo", "ExpertVocals", "HardGuitarCoop", "ExpertSingleX", "SingleExpert", "Song2", "Sync Track", "EasySingleBass",
           "ExpertDoubleDrums", "X", "Expert", "Single", "ExpertSingleBackup", "HardDrums2x",
           # titles that are patterns or format strings to whoever builds a pattern or a message from them without escaping
           "Expert.ingle", "E.*Single", "ExpertSingle|Foo", "(ExpertSingle)", "^ExpertSingle$", "ExpertSingle$", "ExpertSingle+", "Expert[S]ingle",
           "ExpertSingle\\b", "%s", "{}", "{0}", "%(name)s", "100%", "a{b", "\\1", "Expert\\Single"]
BODY_POOL = ["  0 = N 0 0", "  192 = E solo", "  0 = B 120000", "[Song]", "[ExpertSingle]", "  Resolution = 1", "garbage", "", "  ",
             "{ }", "  5 = S 2 10", "  Name = \"{\"", "  0 = E \"section }\"", "{", "x{", "}x"]  # a lone "{" is content of an unknown body; "}" closes it
TMP = None


def exhaustive(tier):
    return True  # each of the 40 headers alone and all 40 together; renderings are sampled


def required(tier):
    return ["all_40_headers_routed_alone", "all_40_together", "empty_body", "bom_by_path", "crlf", "crlf_by_path", "unknown_between_known",
            "required_first", "required_last", "missing:Song", "missing:SyncTrack", "missing:Events", "instrument_before_Song", "align:straddle", "align:line_end", "rendering_parsed_with_selection_of_all_tracks",
            "lf_and_crlf_mixed_in_one_file", "no_line_terminator_after_the_last_brace",
            "missing_required_but_unknown_title_contains_its_name"]


def shards(tier, seed):
    out = [{"name": f"alone-{i}", "kind": "alone", "pairs": model.ALL_PAIRS[i::8]} for i in range(8)]
    out += [{"name": f"align-{i}", "kind": "align", "part": i} for i in range(2 if tier == "quick" else 6)]
    n = 8 if tier == "quick" else 40
    out += [{"name": f"perm-{i}", "kind": "perm", "count": 12 if tier == "quick" else 150} for i in range(n)]
    return out


def known_names():
    return {"Song", "SyncTrack", "Events"} | {model.header(i, d) for i, d in model.ALL_PAIRS}


def check_framing(rec, sections, out, case):
    """SectionProbe records vs the body lines of the rendering"""
    log = [r for r in probes.drain() if r["probe"] == "section"]
    names = known_names()
    inst_by_header = {model.header(i, d): (i, d) for i, d in model.ALL_PAIRS}
    want = []
    for name, body in sections:
        if name == "Song":
            want.append(("Metadata", None, None, body))
        elif name == "SyncTrack":
            want.append(("SyncTrack", None, None, body))
        elif name == "Events":
            want.append(("GlobalEventsTrack", None, None, body))
        elif name in inst_by_header:
            i, d = inst_by_header[name]
            want.append(("InstrumentTrack", i, d, body))
    ok = True
    for callee, i, d, body in want:
        if probes.status.get(callee) != "active":
            rec.mon(f"probe_skipped:{callee}")
            continue
        rec.cls("probe_active")
        rec.ev()
        got = [r for r in log if r["callee"] == callee and (callee != "InstrumentTrack" or (r["instrument"], r["difficulty"]) == (i, d))]
        if len(got) != 1:
            rec.violation("routing", f"section parser {callee}{'' if i is None else f'({i},{d})'} was invoked {len(got)} times for a chart "
                          f"with exactly one such section (calls seen: {[(r['callee'], r['instrument'], r['difficulty']) for r in log]})",
                          case, f"routing:{callee}")
            ok = False
        elif got[0]["lines"] != list(body):
            g = got[0]["lines"]
            rec.violation("framing", f"{callee}{'' if i is None else f'({i},{d})'} received {len(g)} lines, its section body has "
                          f"{len(body)}: received[:3]={g[:3]} received[-2:]={g[-2:]} body[:3]={list(body)[:3]} body[-2:]={list(body)[-2:]}",
                          case, f"framing:{callee}")
            ok = False
    n_inst = sum(1 for r in log if r["callee"] == "InstrumentTrack")
    if probes.status.get("InstrumentTrack") == "active" and n_inst != sum(1 for w in want if w[0] == "InstrumentTrack"):
        rec.violation("routing", f"{n_inst} instrument-track parses for {sum(1 for w in want if w[0] == 'InstrumentTrack')} "
                      f"recognised instrument sections (sections: {[n for n, _ in sections]})", case, "routing:count")
        ok = False
    return ok


def check_unknown_reports(rec, sections, out, case):
    unknown = [n for n, _ in sections if n not in known_names()]
    # reports about unknown sections: WARNING+ records of the chartparse logger tree that name an unknown section (which logger
    # carries them is the implementation's choice); these charts contain nothing else worth a warning
    chart_logs = [m for (lg, lvl, m) in out.logs if (lg == "chartparse" or lg.startswith("chartparse.")) and lvl in ("WARNING", "ERROR", "CRITICAL")]
    rec.ev()
    if len(chart_logs) != len(unknown):
        rec.violation("unknown-section-report", f"{len(unknown)} unknown sections {unknown} but {len(chart_logs)} warnings on the "
                      f"chartparse loggers: {chart_logs[:4]}", case, "unknown-section-report")
        return False
    for n in unknown:
        if not any(n in m for m in chart_logs):
            rec.violation("unknown-section-report", f"unknown section {n!r} is not named by any chartparse.chart record {chart_logs[:4]}",
                          case, "unknown-section-report")
            return False
    return True


def parse_variant(text, via_path, bom, want=None):
    if not via_path:
        return harness.parse(text, want)
    global TMP
    if TMP is None:
        TMP = tempfile.mkdtemp(prefix="vmon-c06-")
        harness.add_siblings(TMP)  # a song folder: song.ini, album picture, stems, another chart
    # the path is the caller's: a str (as in the README), a pathlib.Path (as annotated) or any os.PathLike; plain or non-ASCII
    # file names; directly in the directory or reached through a symbolic link
    k = len(text) % 6
    name = ("c.chart", "ca\u00f1\u00f3n \u4e16\u754c.chart", "notes (1) [final].chart")[k % 3]
    import sys

    if sys.getfilesystemencoding().lower().replace("-", "") != "utf8":
        name = name.encode("ascii", "replace").decode("ascii").replace("?", "_")  # (an ASCII locale cannot even name such a file)
    p = os.path.join(TMP, name)
    with open(p, "wb") as f:
        f.write((b"\xef\xbb\xbf" if bom else b"") + text.encode("utf-8"))
    if k == 4:
        link = os.path.join(TMP, "link.chart")
        if os.path.lexists(link):
            os.unlink(link)
        os.symlink(p, link)
        p = link
    env.LOG.drain()
    try:
        import pathlib

        class _PL:
            def __init__(self, s_):
                self.s = s_

            def __fspath__(self):
                return self.s

        arg = (pathlib.Path(p), p, _PL(p))[k // 2]
        c = harness.Chart.from_filepath(arg) if want is None else harness.Chart.from_filepath(arg, want_tracks=want)
        return harness.Outcome(c, None, env.LOG.drain())
    except Exception as e:  # noqa
        return harness.Outcome(None, e, env.LOG.drain())


_BASE: dict = {}


def render(sections, newline, final=True):
    return gen.render_sections(sections, newline, final)


def judge_rendering(rec, sections, truth, newline, via_path, bom, baseline, light=False, final=True):
    text = render(sections, newline, final)
    case = {"sections": [[n, list(b)] for n, b in sections], "truth": truth, "newline": newline, "via_path": via_path, "bom": bom, "final": final}
    probes.drain()
    want = None
    if not light and len(text) % 4 == 1:
        # the same rendering parsed with a selection that names every track present (plus an absent pair): same chart, and
        # unknown sections must still be reported
        want = harness.pairs(mcheck.all_present({"truth": truth}))
        rec.cls("rendering_parsed_with_selection_of_all_tracks")
    elif not light and len(text) % 4 == 3 and truth.get("tracks"):
        # ... and with a selection naming exactly the tracks that are there (nothing absent to wait for): unknown sections - also ones
        # standing after the last selected track - are still reported
        want = harness.pairs([k.split("/") for k in sorted(truth["tracks"])])
        rec.cls("rendering_parsed_with_selection_of_exactly_the_present_tracks")
    out = parse_variant(text, via_path, bom, want)
    rec.ev()
    if not out.ok:
        probes.drain()
        rec.violation("well-formed-chart-rejected", f"rendering (newline={newline!r}, by_path={via_path}, bom={bom}, sections "
                      f"{[n for n, _ in sections]}) rejected with {harness.exc_str(out.exc)}", case, f"rejected:{type(out.exc).__name__}")
        return None
    ok = check_framing(rec, sections, out, case)
    ok &= check_unknown_reports(rec, sections, out, case)
    ob = harness.obs(out.chart)
    if not light:
        d = model.compare(truth, ob)
        rec.ev(d.evals.get("C06", 0))
        mine = d.of("C06")
        if mine:
            rec.violation(mine[0][1], mine[0][2], case, f"C06:{mine[0][1]}")
            ok = False
    elif ob["metadata"].get("name") != truth["metadata"].get("name"):
        rec.violation("field", f"metadata.name read {'by path' if via_path else 'from text'}: expected {truth['metadata'].get('name')!r:.80}, "
                      f"observed {ob['metadata'].get('name')!r:.80}", case, "C06:name-mangled")
        ok = False
    dg = observe.digest(ob)
    if baseline is None:
        _BASE["chart"] = out.chart
    elif _BASE.get("chart") is not None:
        # "independent of section order, line endings, BOM and unrecognised sections" for the chart as a value too: == with the
        # chart of the first rendering (both directions)
        rec.ev()
        try:
            same = bool(out.chart == _BASE["chart"]) and bool(_BASE["chart"] == out.chart) and not (out.chart != _BASE["chart"])
        except Exception as e:  # noqa
            same = False
        if not same:
            rec.violation("rendering-dependence", f"the chart parsed from this rendering (newline={newline!r}, by_path={via_path}, bom={bom}, section order "
                          f"{[n for n, _ in sections]}) does not compare equal (==) to the chart parsed from the first rendering of the same spec", case,
                          "rendering-dependence:==")
            ok = False
    if baseline is not None:
        rec.ev()
        if dg != baseline:
            rec.violation("rendering-dependence", f"the same spec parses to a different observation when rendered with newline={newline!r}, "
                          f"by_path={via_path}, bom={bom}, section order {[n for n, _ in sections]}", case, "rendering-dependence")
            ok = False
    if ok and len(sections) >= 4:
        rec.key(text + f"|{via_path}|{bom}")
    return dg


def with_unknown(rng, sections, k):
    secs = list(sections)
    for _ in range(k):
        name = rng.choice(UNKNOWN)
        if name in [n for n, _ in secs]:
            continue
        body = [rng.choice(BODY_POOL) for _ in range(rng.choice([0, 0, 1, 3, 8]))]
        pos = rng.randint(0, len(secs))
        secs.insert(pos, (name, body))
    return secs


def position_classes(rec, secs):
    names = [n for n, _ in secs]
    kn = known_names()
    for r in ("Song", "SyncTrack", "Events"):
        if names[0] == r:
            rec.cls("required_first")
        if names[-1] == r:
            rec.cls("required_last")
    if names.index("Song") > min([i for i, n in enumerate(names) if n in kn and n not in ("Song", "SyncTrack", "Events")] or [10**9]):
        rec.cls("instrument_before_Song")
    for a, b, c in zip(names, names[1:], names[2:]):
        if b not in kn and a in kn and c in kn:
            rec.cls("unknown_between_known")
    if any(len(b) == 0 for n, b in secs):
        rec.cls("empty_body")


def run_spec(rec, rng, case, n_render):
    sections = [(n, b) for n, b in case["sections"]]
    truth = case["truth"]
    baseline = judge_rendering(rec, sections, truth, "\n", False, False, None)
    if baseline is None:
        return
    for r in range(n_render):
        secs = list(sections)
        rng.shuffle(secs)
        if r == 0:
            secs.sort(key=lambda s: s[0] in ("Song", "SyncTrack", "Events"))  # instrument sections first
        secs = with_unknown(rng, secs, rng.choice([0, 1, 2, 4]))
        newline = rng.choice(["\n", "\r\n", "\r\n", "mixed"])
        final = rng.random() < 0.7
        via_path = r % 2 == 1
        bom = via_path and rng.random() < 0.6
        position_classes(rec, secs)
        judge_rendering(rec, secs, truth, newline, via_path, bom, baseline, final=final)
        if newline == "\r\n":
            rec.cls("crlf_by_path" if via_path else "crlf")
        if newline == "mixed":
            rec.cls("lf_and_crlf_mixed_in_one_file")
        if not final:
            rec.cls("no_line_terminator_after_the_last_brace")
        if bom:
            rec.cls("bom_by_path")
        if rec.full:
            return
    # each required section removed in turn => ValueError
    for miss in ("Song", "SyncTrack", "Events"):
        secs = [s for s in sections if s[0] != miss]
        if rng.random() < 0.5:
            # ... also when an UNKNOWN section's title contains the missing name (a backup copy, a tool's own section)
            title = rng.choice(["Practice" + miss, miss + "Info", miss + "Backup", "My" + miss + "2", miss.lower(), miss + " (old)"])
            secs.insert(rng.randint(0, len(secs)), (title, [rng.choice(BODY_POOL) for _ in range(rng.choice([0, 2]))]))
            rec.cls("missing_required_but_unknown_title_contains_its_name")
        out = harness.parse(gen.render_sections(secs))
        probes.drain()
        rec.ev()
        if out.ok or not isinstance(out.exc, ValueError):
            rec.violation("missing-required-section", f"chart without [{miss}] " + ("was accepted" if out.ok else
                          f"raised {harness.exc_str(out.exc)} instead of ValueError"),
                          {"sections": [[n, list(b)] for n, b in secs], "truth": None, "newline": "\n", "via_path": False, "bom": False,
                           "missing": miss}, f"missing-required:{miss}")
        else:
            rec.cls(f"missing:{miss}")


def alignment_cases(rng, part):
    """(a) read by path without BOM: a 3-byte character whose bytes straddle byte offset 2^k (k = 9..17);
       (b) a body line that ends exactly on character offset 2^k (k = 12..17), for every section it can fall into."""
    out = []
    # a chart long enough to reach 2^17 characters
    case = gen.gen_chart(rng, "stress", pairs=[("GUITAR", "EXPERT"), ("BASS", "HARD")], n_groups=[1700, 1700, 3300, 3300, 3300, 3300][part % 6], n_globals=30,
                         n_tempos=6, shuffle_sections=False, newline="\n")
    secs = [(n, list(b)) for n, b in case["sections"]]
    truth = case["truth"]
    song = dict(secs)["Song"]
    song[:] = [ln for ln in song if not ln.strip().startswith("Name =")]
    truth["metadata"].pop("name", None)

    def with_name(value):
        t = dict(truth, metadata=dict(truth["metadata"], name=value))
        s2 = [(n, ([f"  Name = \"{value}\""] + b if n == "Song" else b)) for n, b in secs]
        return s2, t

    base_text = gen.render_sections(with_name("")[0])  # only for measuring offsets
    prefix = base_text.index("  Name = \"") + len("  Name = \"")
    # (a) straddle: value = ASCII filler + 3-byte char placed so that its first byte is at offset 2^k - 1 or 2^k - 2
    for k in ((9, 10, 12, 13, 16) if part % 2 == 0 else ()):
        for back in (1, 2):
            fill = 2**k - back - prefix
            if fill < 0 or 2**k + 40 > len(base_text):
                continue
            out.append(("straddle", k, with_name("x" * fill + "\u4e16\u754c")))
    # (b) line ends on 2^k: pad the Name so that some later body line's end (incl. newline) lands on 2^k, sweeping one line length
    for k in ((12, 13, 14, 15, 16, 17) if part % 2 == 1 else ()):
        if 2**k + 40 > len(base_text):
            continue
        # position of the first line end at or after 2^k in the unpadded text
        e = base_text.index("\n", 2**k - 1) + 1
        need = e - 2**k  # shift everything left by `need`... we can only pad (shift right): pad so the PREVIOUS line end lands on 2^k
        prev_end = base_text.rindex("\n", 0, 2**k - 1) + 1 if 2**k - 1 > 0 else 0
        pad = 2**k - prev_end
        out.append(("line_end", k, with_name("y" * pad)))
    return out


def run_alignment(rec, rng, part):
    for kind, k, (secs, truth) in alignment_cases(rng, part):
        text = gen.render_sections(secs)
        if kind == "line_end" and text[2**k - 1] != "\n":
            rec.diag(f"alignment construction missed 2^{k}")
            continue
        if kind == "straddle":
            b = text.encode("utf-8")
            i = b.index("\u4e16".encode("utf-8"))
            if not (i < 2**k < i + 3):
                rec.diag(f"straddle construction missed 2^{k}")
                continue
        base = judge_rendering(rec, secs, truth, "\n", False, False, None, light=True)
        judge_rendering(rec, secs, truth, "\n", True, False, base, light=True)
        rec.cls(f"align:{kind}")
        rec.into("aligned_powers_of_two", f"{kind}:2^{k}")
        if rec.full:
            return


def run_shard(shard, rec, tier, seed):
    harness.setup()
    probes.install_section_probe()
    try:
        if shard["kind"] == "align":
            run_alignment(rec, harness.rng_for(seed, ID, shard["name"], 0), shard["part"])
        elif shard["kind"] == "alone":
            for j, (inst, diff) in enumerate(shard["pairs"]):
                rng = harness.rng_for(seed, ID, shard["name"], j)
                case = gen.gen_chart(rng, "realistic", pairs=[(inst, diff)], n_groups=rng.choice([0, 3, 12]), n_globals=2, shuffle_sections=False)
                before = len(rec.violations)
                run_spec(rec, rng, case, 3)
                if len(rec.violations) == before:
                    rec.cls("header_routed_alone")
                    rec.into("headers_alone", model.header(inst, diff))
            if shard["name"] == "alone-0":
                rng = harness.rng_for(seed, ID, shard["name"], "all40")
                case = gen.gen_chart(rng, "realistic", pairs=list(model.ALL_PAIRS), n_groups=4, n_globals=2)
                before = len(rec.violations)
                run_spec(rec, rng, case, 4)
                if len(rec.violations) == before:
                    rec.cls("all_40_together")
        else:
            for i in range(shard["count"]):
                rng = harness.rng_for(seed, ID, shard["name"], i)
                case = gen.gen_chart(rng, "hostile" if i % 3 == 0 else "realistic", n_tracks=rng.choice([0, 1, 2, 5, 12]),
                                     n_groups=rng.choice([0, 2, 10]), n_globals=rng.choice([0, 4]), pad=False)
                run_spec(rec, rng, case, 6)
                if i < 1:
                    rec.sample({"section_order": [n for n, _ in case["sections"]], "text_head": case["text"][:200]})
                if rec.full:
                    break
    finally:
        if TMP:
            shutil.rmtree(TMP, ignore_errors=True)
    for k, v in probes.status.items():
        rec.into("probe_status", f"{k}={v}")
    harness.finish(rec)


def finalize(agg, tier):
    n = len(agg["sets"].get("headers_alone", ()))
    if n == 40:
        agg["classes"]["all_40_headers_routed_alone"] = 1
    return {"headers_routed_alone": n}


def replay(case, rec):
    harness.setup()
    probes.install_section_probe()
    secs = [(n, b) for n, b in case["sections"]]
    try:
        if case.get("missing"):
            out = harness.parse(gen.render_sections(secs))
            rec.ev()
            if out.ok or not isinstance(out.exc, ValueError):
                rec.violation("missing-required-section", f"chart without [{case['missing']}] not rejected with ValueError", case)
            return
        base_secs = [s for s in secs if s[0] in known_names()]
        baseline = judge_rendering(rec, base_secs, case["truth"], "\n", False, False, None)
        judge_rendering(rec, secs, case["truth"], case["newline"], case["via_path"], case["bom"], baseline, final=case.get("final", True))
    finally:
        if TMP:
            shutil.rmtree(TMP, ignore_errors=True)
