"""C02 — one note event per tick; lanes are exactly the lanes written.

Monitor: reference model over generator ground truth. Exhaustive over the 32 lane combinations x
position (first/middle/last via rotation) x flags x gap x where S/E lines fall relative to the N lines
of the same tick; plus random tracks of every profile.
"""
from __future__ import annotations

from vmon import gen, harness, mcheck, model

ID = "C02"
LEVEL = "exploration"
RULE = ("one case = one instrument section inside a full chart: either an enumerated context (rotation of the 32 lane "
        "combinations so each is first/middle/last, flags none/forced/tap/both, gap 1 or large, S and E lines placed "
        "before/between/after the N lines of each tick) or a random realistic/hostile/stress track; evaluations = "
        "per-track tick-sequence checks + per-note lane checks; distinct non-trivial = distinct section bodies with >= 2 "
        "note ticks whose observation matched")
ASSUMPTIONS = [
    "well-formed sections only: one line per lane per tick, open note alone on its tick (plus flags) and first in its group, "
    "no flag-only ticks, first note never forced, N lines grouped by tick in ascending order",
]
COMBOS = [[]] + [[k for k in range(5) if m >> k & 1] for m in range(1, 32)]  # [] = open
MODES = ["none", "before", "between", "after"]
FLAGS = [(False, False), (True, False), (False, True), (True, True)]


def exhaustive(tier):
    return True  # the enumerated contexts (random tracks are extra)


def required(tier):
    return ["all_32_lane_sets", "gap:1", "chord_as_last_group", "interleave:between", "group_lines:7", "group_lines:1", "concurrent_stage", "ticks_around_2^31..10^12", "parsed_with_selection_of_all_tracks"]


def shards(tier, seed):
    out = [{"name": f"enum-{i}", "kind": "enum", "part": i, "parts": 8} for i in range(8)]
    n = 8 if tier == "quick" else 40
    per = 40 if tier == "quick" else 600
    out += [{"name": f"rand-{i}", "kind": "random", "count": per} for i in range(n)]
    out += [{"name": f"stress-{i}", "kind": "stress", "count": 1 if tier == "quick" else 4} for i in range(2 if tier == "quick" else 8)]
    return out


def extra(p, kind):
    # a section's notes that cannot be found under the (instrument, difficulty) its header names are dropped notes for the reader
    return p == "C06" and kind in ("keys", "label")


def context_track(rot: int, mode: str, flags, gap: int, start: int):
    """32 groups (one per lane combination, rotated), body rendered with S/E lines placed per mode."""
    forced, tap = flags
    order = COMBOS[rot:] + COMBOS[:rot]
    groups, phrases, tevents, body = [], [], [], []
    t = start
    for gi, lanes in enumerate(order):
        g = {"tick": t, "lanes": {str(k): 0 for k in lanes}, "open": 0 if not lanes else None,
             "forced": forced and gi > 0, "tap": tap}
        groups.append(g)
        nl = gen.group_lines(None, g)
        extra = []
        if mode != "none":
            phrases.append([t, gi % 3])
            tevents.append([t, f"e{gi}"])
            extra = [f"  {t} = S 2 {gi % 3}", f"  {t} = E e{gi}"]
        if mode == "before":
            body += extra + nl
        elif mode == "between":
            body += nl[:1] + extra[:1] + nl[1:2] + extra[1:] + nl[2:]
        else:
            body += nl + extra
        t += gap
    return {"groups": groups, "phrases": phrases, "tevents": tevents}, body


def enum_cases(part: int, parts: int):
    idx = 0
    for rot in range(32):
        for mode in MODES:
            for flags in FLAGS:
                for gap in (1, 577):
                    if idx % parts == part:
                        yield rot, mode, flags, gap
                    idx += 1


def note_classes(rec, truth):
    for k, tr in truth["tracks"].items():
        gs = tr["groups"]
        for i, g in enumerate(gs):
            name = "open" if g.get("open") is not None else "".join("GRYBO"[int(x)] for x in sorted(g["lanes"], key=int))
            rec.cls("laneset:" + name)
            nlines = (1 if g.get("open") is not None else len(g["lanes"])) + bool(g.get("forced")) + bool(g.get("tap"))
            rec.cls(f"group_lines:{nlines}")
            if i + 1 < len(gs) and gs[i + 1]["tick"] - g["tick"] == 1:
                rec.cls("gap:1")
        if gs and len(gs[-1]["lanes"]) > 1:
            rec.cls("chord_as_last_group")


def run_shard(shard, rec, tier, seed):
    harness.setup()
    if shard["kind"] == "enum":
        batch = []
        for rot, mode, flags, gap in enum_cases(shard["part"], shard["parts"]):
            batch.append((rot, mode, flags, gap))
            if len(batch) == 8:
                run_batch(rec, batch)
                batch = []
        if batch:
            run_batch(rec, batch)
    else:
        keep = mcheck.Keep()
        for i in range(shard["count"]):
            rng = harness.rng_for(seed, ID, shard["name"], i)
            if shard["kind"] == "stress":
                case = gen.gen_chart(rng, "stress", n_tempos=20, n_tracks=1, n_groups=rng.choice([2000, 5000]), n_globals=0)
            elif i % 13 == 5:
                case = gen.huge_tick_chart(rng)
                rec.cls("ticks_around_2^31..10^12")
            else:
                case = gen.chart_or_interactions(rng, i, "hostile" if i % 2 else "realistic", rec, n_tracks=rng.choice([1, 2, 3]),
                                     n_groups=rng.choice([1, 2, 5, 30, 120, 400]), pad=i % 3 == 0)
            sel = mcheck.all_present(case, rng) if i % 5 == 3 else None
            if sel is not None:
                rec.cls("parsed_with_selection_of_all_tracks")
            out, ob, d = mcheck.judge(rec, ("C02",), case, want=sel, extra=extra)
            keep.add(case)
            if d is not None and not mcheck.select(d, ("C02",), extra) and sel is None and i % 3 == 0 and not mcheck.constructor_route(rec, ("C02",), case, out):
                continue
            if d is not None and not mcheck.select(d, ("C02",), extra):
                note_classes(rec, case["truth"])
                for name, body in case["sections"]:
                    if name not in ("Song", "SyncTrack", "Events") and sum(" = N " in ln for ln in body) >= 2:
                        rec.key(body)
            if i < 1:
                rec.sample({"text_head": case["text"][:400]})
            if rec.full:
                break
        if not rec.full and shard["kind"] == "random":
            mcheck.threaded_stage(rec, ("C02",), keep.cases, extra)
    harness.finish(rec)


def run_batch(rec, batch):
    """several enumerated contexts as different tracks of one chart"""
    res = 192
    truth = {"resolution": res, "tempos": [[0, 120000], [300, 90500], [5000, 200000]], "timesigs": [[0, 4, None]],
             "metadata": {"resolution": res}, "anchors": [], "globals": [], "tracks": {}}
    sections = [("Song", [f"  Resolution = {res}"]), ("SyncTrack", ["  0 = TS 4", "  0 = B 120000", "  300 = B 90500", "  5000 = B 200000"]),
                ("Events", [])]
    for j, (rot, mode, flags, gap) in enumerate(batch):
        inst, diff = model.ALL_PAIRS[(rot * 7 + j * 11) % 40]
        while f"{inst}/{diff}" in truth["tracks"]:
            inst, diff = model.ALL_PAIRS[(model.ALL_PAIRS.index((inst, diff)) + 1) % 40]
        tr, body = context_track(rot, mode, flags, gap, start=j * 3)
        truth["tracks"][f"{inst}/{diff}"] = tr
        sections.append((model.header(inst, diff), body))
        rec.cls(f"interleave:{mode}")
    case = {"text": gen.render_sections(sections), "truth": truth}
    out, ob, d = mcheck.judge(rec, ("C02",), case, extra=extra)
    if d is not None and not mcheck.select(d, ("C02",), extra):
        note_classes(rec, truth)
        for ctx in batch:
            rec.key(["ctx", ctx])
        rec.sample({"context(rot,mode,flags,gap)": batch[0], "body_head": sections[3][1][:9]})


def finalize(agg, tier):
    n = sum(1 for k in agg["classes"] if k.startswith("laneset:"))
    if n == 32:
        agg["classes"]["all_32_lane_sets"] = 1
    else:
        agg["inconclusive"].append(f"only {n} of 32 lane sets observed")
    return {"lane_sets_observed": n}


def replay(case, rec):
    harness.setup()
    mcheck.replay_case(rec, ("C02",), case, extra)
