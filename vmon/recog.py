"""Hand-written three-valued line recognisers (no regular expressions): the oracles of C07/C08/C09/C14.

Each returns ("accept", kind, values...) | ("reject",) | ("dontcare",).
must-accept / must-reject are what the property statements fix; dontcare is where they are silent
(exotic Unicode digits or whitespace, doubled/missing/tab blanks BETWEEN tokens, lower-case kind
letters, E lines with an empty word, trailing padding on sync A lines) — never asserted.
"""
from __future__ import annotations

ASCII_DIGITS = set("0123456789")
LINE_BREAKERS = "\x0b\x0c\x1c\x1d\x1e\x1f\x85\u2028\u2029"  # str.splitlines() boundaries (+ \x1f for safety)
REJECT = ("reject",)
DONTCARE = ("dontcare",)


def is_num(tok: str) -> bool:
    return len(tok) >= 1 and all(c in ASCII_DIGITS for c in tok)


def exotic(line: str) -> bool:
    for c in line:
        if c in " \t":
            continue
        if c.isspace():
            return True
        if (c.isdigit() or c.isdecimal() or c.isnumeric()) and c not in ASCII_DIGITS:
            return True
        if c in LINE_BREAKERS:
            return True
    return False


def _canon_instrument(tokens: list[str]):
    if len(tokens) == 5 and is_num(tokens[0]) and tokens[1] == "=" and tokens[2] == "N" and len(tokens[3]) == 1 \
            and tokens[3] in "01234567" and is_num(tokens[4]):
        return ("accept", "N", int(tokens[0]), int(tokens[3]), int(tokens[4]))
    if len(tokens) == 5 and is_num(tokens[0]) and tokens[1] == "=" and tokens[2] == "S" and tokens[3] == "2" and is_num(tokens[4]):
        return ("accept", "S", int(tokens[0]), int(tokens[4]))
    if len(tokens) == 4 and is_num(tokens[0]) and tokens[1] == "=" and tokens[2] == "E" and tokens[3] != "":
        return ("accept", "E", int(tokens[0]), tokens[3])
    return None


def instrument_line(line: str):
    if exotic(line):
        return DONTCARE
    core = line.strip(" \t")
    tokens = core.split(" ")
    r = _canon_instrument(tokens)
    if r is not None and "\t" not in core:
        return r
    if "\t" in core or "  " in core:
        # tabs / doubled blanks between tokens (or inside an E "word"): the statement fixes single blanks between tokens
        # and whitespace-free words only; anything that still looks like '<num> = <N|S|E> ...' is don't-care
        lt = core.replace("\t", " ").split()
        if len(lt) >= 3 and is_num(lt[0]) and lt[1] == "=" and lt[2] in ("N", "S", "E", "n", "s", "e"):
            return DONTCARE
    # a zero-padded kind index whose VALUE is a supported one ("N 07 0", "N 00 5", "S 02 9"): '<0..7>' may be read as a digit or
    # as a number, the statement does not say — don't-care ("N 0123 0", "N 12 0", "S 022 1" have unsupported values: reject)
    if len(tokens) == 5 and is_num(tokens[0]) and tokens[1] == "=" and tokens[2] in ("N", "S") and is_num(tokens[3]) and len(tokens[3]) > 1 \
            and is_num(tokens[4]) and ((tokens[2] == "N" and int(tokens[3]) <= 7) or (tokens[2] == "S" and int(tokens[3]) == 2)):
        return DONTCARE
    # E with an empty word ("5 = E", "5 = E ") is don't-care
    loose = core.replace("\t", " ").split()
    if len(loose) == 3 and is_num(loose[0]) and loose[1] == "=" and loose[2] in ("E", "e"):
        return DONTCARE
    # blank variants between tokens / lower-case kind letters whose canonical form would be accepted: don't-care
    up = list(loose)
    if len(up) >= 3:
        up[2] = up[2].upper()
    if _canon_instrument(up) is not None:
        return DONTCARE
    # tokens glued with the separator missing ("5= N 0 0", "5 =N 0 0", "5 = N0 0"): missing blanks are don't-care only if
    # re-inserting blanks around '=' and after the kind letter yields a canonical line
    glued = core.replace("\t", " ").replace("=", " = ", 1)
    parts = glued.split()
    if len(parts) >= 3 and len(parts[2]) > 1 and parts[2][0] in "NSEnse":
        parts = parts[:2] + [parts[2][0].upper(), parts[2][1:]] + parts[3:]
    elif len(parts) >= 3:
        parts[2] = parts[2].upper()
    if _canon_instrument(parts) is not None:
        return DONTCARE
    return REJECT


def _canon_sync(tokens: list[str]):
    if len(tokens) == 4 and is_num(tokens[0]) and tokens[1] == "=" and tokens[2] == "B" and is_num(tokens[3]):
        return ("accept", "B", int(tokens[0]), int(tokens[3]))
    if len(tokens) == 4 and is_num(tokens[0]) and tokens[1] == "=" and tokens[2] == "TS" and is_num(tokens[3]):
        return ("accept", "TS", int(tokens[0]), int(tokens[3]), None)
    if len(tokens) == 5 and is_num(tokens[0]) and tokens[1] == "=" and tokens[2] == "TS" and is_num(tokens[3]) and is_num(tokens[4]):
        return ("accept", "TS", int(tokens[0]), int(tokens[3]), int(tokens[4]))
    if len(tokens) == 4 and is_num(tokens[0]) and tokens[1] == "=" and tokens[2] == "A" and is_num(tokens[3]):
        return ("accept", "A", int(tokens[0]), int(tokens[3]))
    return None


def sync_line(line: str):
    if exotic(line):
        return DONTCARE
    core = line.strip(" \t")
    tokens = core.split(" ")
    r = _canon_sync(tokens)
    if r is not None and "\t" not in core:
        if r[1] == "A" and line != line.rstrip(" \t"):
            return DONTCARE  # trailing padding after an anchor value: the statement promises nothing
        return r
    loose = core.replace("\t", " ").split()
    up = list(loose)
    if len(up) >= 3:
        up[2] = up[2].upper()
    if _canon_sync(up) is not None:
        return DONTCARE
    glued = core.replace("\t", " ").replace("=", " = ", 1).split()
    if len(glued) >= 3:
        k = glued[2]
        for kind in ("TS", "B", "A", "ts", "b", "a"):
            if k.startswith(kind) and len(k) > len(kind):
                glued = glued[:2] + [kind.upper(), k[len(kind):]] + glued[3:]
                break
        else:
            glued[2] = glued[2].upper()
    if _canon_sync(glued) is not None:
        return DONTCARE
    return REJECT


def events_line(line: str):
    """<digits> = E "<text>" (Moonscraper layout)"""
    if any(c in line for c in LINE_BREAKERS + "\r\n"):
        return DONTCARE
    core = line.strip(" \t")
    i = core.find(" = E \"")
    if i <= 0 or not core.endswith("\"") or len(core) < i + 7:
        # not of the quoted shape; blank/tab variants of the prefix are don't-care
        loose = core.replace("\t", " ")
        j = loose.find("=")
        if j > 0 and is_num(loose[:j].strip()) and loose[j + 1:].strip()[:1] in ("E", "e") and "\"" in loose:
            return DONTCARE
        return REJECT
    tick = core[:i]
    if not is_num(tick):
        if tick.strip().isdigit():
            return DONTCARE
        return REJECT
    text = core[i + 6:-1]
    if line.rstrip(" \t") != line:
        return DONTCARE  # outer padding after the closing quote: promised only for instrument lines
    if text.startswith("lyric "):
        return ("accept", "lyric", int(tick), text[6:])
    if text.startswith("section "):
        return ("accept", "section", int(tick), text[8:])
    if "\"" in text:
        return DONTCARE  # the statement fixes only quote-free plain texts; what happens to other texts with inner quotes is open
    return ("accept", "text", int(tick), text)
