"""Independent reference semantics, written from the property statements and the .chart format.

Never imports chartparse. Input: a JSON-able ground truth ("truth") produced by vmon.gen;
output: expectations in the shape vmon.observe produces, and compare() which tags every
discrepancy with the property it belongs to.

truth = {
  "resolution": int,
  "metadata": {snake_field: expected value}           (only fields present in the file; player2 as "bass"/"rhythm")
  "tempos": [[tick, n_thousandths]], "timesigs": [[tick, upper, exp|None]], "anchors": [[tick, us]],
  "globals": [[tick, kind, value]]                     (file order; kind in lyric/section/text)
  "tracks": {"GUITAR/EXPERT": {"groups": [{"tick","lanes":{"0":len,..},"open":len|None,"forced","tap"}],
                               "phrases": [[tick,len]], "tevents": [[tick, word]]}}
}
"""
from __future__ import annotations

import bisect
from fractions import Fraction

US = 10**6
TIME_LIMIT_US = 10**6 * US  # the quantifier of C01: times below 10^6 s
HALF = Fraction(1, 2)
SLACK = Fraction(1, 1000)  # 1 ns per advancing segment: float64 evaluation error (DESIGN C01)

INSTRUMENTS = {
    "GUITAR": "Single", "GUITAR_COOP": "DoubleGuitar", "BASS": "DoubleBass", "RHYTHM": "DoubleRhythm",
    "KEYS": "Keyboard", "DRUMS": "Drums", "GHL_GUITAR": "GHLGuitar", "GHL_BASS": "GHLBass",
    "GHL_COOP": "GHLCoop", "GHL_RHYTHM": "GHLRhythm",
}
DIFFICULTIES = {"EASY": "Easy", "MEDIUM": "Medium", "HARD": "Hard", "EXPERT": "Expert"}
ALL_PAIRS = [(i, d) for i in INSTRUMENTS for d in DIFFICULTIES]


def header(instrument: str, difficulty: str) -> str:
    return DIFFICULTIES[difficulty] + INSTRUMENTS[instrument]


STRING_FIELDS = ["genre", "media_type", "name", "artist", "charter", "album", "year", "music_stream",
                 "guitar_stream", "rhythm_stream", "bass_stream", "drum_stream", "drum2_stream",
                 "drum3_stream", "drum4_stream", "vocal_stream", "keys_stream", "crowd_stream"]
INT_FIELDS = ["resolution", "offset", "difficulty", "preview_start", "preview_end"]
ALL_FIELDS = ["resolution", "offset", "player2", "difficulty", "preview_start", "preview_end"] + STRING_FIELDS
PASCAL = {
    "resolution": "Resolution", "offset": "Offset", "player2": "Player2", "difficulty": "Difficulty",
    "preview_start": "PreviewStart", "preview_end": "PreviewEnd", "genre": "Genre", "media_type": "MediaType",
    "name": "Name", "artist": "Artist", "charter": "Charter", "album": "Album", "year": "Year",
    "music_stream": "MusicStream", "guitar_stream": "GuitarStream", "rhythm_stream": "RhythmStream",
    "bass_stream": "BassStream", "drum_stream": "DrumStream", "drum2_stream": "Drum2Stream",
    "drum3_stream": "Drum3Stream", "drum4_stream": "Drum4Stream", "vocal_stream": "VocalStream",
    "keys_stream": "KeysStream", "crowd_stream": "CrowdStream",
}
# documented defaults (chartparse/metadata.py docstrings and README)
DEFAULTS = {"offset": 0, "player2": "bass", "difficulty": 0, "preview_start": 0, "preview_end": 0,
            "genre": "rock", "media_type": "cd"}


class TempoMap:
    """Exact rational tempo map. Time unit: microseconds as Fraction."""

    def __init__(self, resolution: int, tempos) -> None:
        self.res = resolution
        self.ticks = [int(t) for t, _ in tempos]
        self.ns = [int(n) for _, n in tempos]
        self.cum = [Fraction(0)]
        for i in range(1, len(self.ticks)):
            self.cum.append(self.cum[-1] + (self.ticks[i] - self.ticks[i - 1]) * self.upt(i - 1))

    def upt(self, i: int) -> Fraction:
        """microseconds per tick in segment i: 60 s / (BPM * resolution), BPM = n/1000"""
        return Fraction(60 * US * 1000, self.ns[i] * self.res)

    def gov(self, tick: int) -> int:
        return bisect.bisect_right(self.ticks, tick) - 1

    def exact(self, tick: int) -> Fraction:
        g = self.gov(tick)
        return self.cum[g] + (tick - self.ticks[g]) * self.upt(g)

    def segs(self, tick: int) -> int:
        """tempo segments in which `tick` advances by at least one tick"""
        g = self.gov(tick)
        return g + (1 if tick > self.ticks[g] else 0)

    def budget(self, tick: int) -> Fraction:
        return self.segs(tick) * (HALF + SLACK)

    def horizon(self, limit_us) -> int:
        """largest tick whose exact time is <= limit_us (>= last tempo tick)"""
        last = len(self.ticks) - 1
        rem = Fraction(limit_us) - self.cum[last]
        if rem <= 0:
            return self.ticks[last]
        return self.ticks[last] + int(rem / self.upt(last))

    def strict_eligible(self) -> bool:
        """C12: a single tick lasts at least two microseconds at every tempo (n*res <= 3e10)"""
        return all(n * self.res <= 3 * 10**10 for n in self.ns)


def hopo_threshold(resolution: int) -> int:
    """nearest integer to resolution/3 (never a tie)"""
    return (2 * resolution + 3) // 6


def expected_track(res: int, tr: dict) -> dict:
    """Expected public observations of one track (timestamps excluded: see time checks)."""
    thr = hopo_threshold(res)
    phrases = tr.get("phrases", [])
    notes = []
    prev = None
    for g in tr["groups"]:
        tick = g["tick"]
        lanes = [0] * 5
        if g.get("open") is not None:
            sustain = g["open"]
            longest = g["open"]
        else:
            ls = {int(k): v for k, v in g["lanes"].items()}
            for k in ls:
                lanes[k] = 1
            vals = [ls[k] for k in sorted(ls)]
            if all(v == vals[0] for v in vals):
                sustain = vals[0]
            else:
                sustain = [ls.get(k) for k in range(5)]
            longest = max(vals)
        if g.get("tap"):
            hopo = "TAP"
        elif prev is None:
            hopo = "STRUM"
        else:
            natural = (sum(lanes) <= 1) and (lanes != prev[1]) and (tick - prev[0] <= thr)
            hopo = "HOPO" if natural != bool(g.get("forced")) else "STRUM"
        sp = None
        for idx, (s, ln) in enumerate(phrases):
            if s <= tick < s + ln:
                sp = idx
                break
        notes.append({"tick": tick, "lanes": lanes, "sustain": sustain, "longest": longest,
                      "end_tick": tick + longest, "hopo": hopo, "sp": sp})
        prev = (tick, lanes)
    return {"notes": notes, "sp": [[s, ln] for s, ln in phrases], "te": [[t, w] for t, w in tr.get("tevents", [])]}


def expected_metadata(md: dict) -> dict:
    out = {}
    for f in ALL_FIELDS:
        if f in md:
            out[f] = md[f]
        elif f in DEFAULTS:
            out[f] = DEFAULTS[f]
        else:
            out[f] = None
    return out


class Diffs:
    """Discrepancies tagged with the property they belong to."""

    def __init__(self) -> None:
        self.items: list[tuple[str, str, str]] = []
        self.counts: dict[str, int] = {}
        self.evals: dict[str, int] = {}
        self.max_excess_bare = Fraction(0)  # how far beyond the bare s*0.5us a correct time was
        self.over_bare = 0
        self.skipped_over_limit = 0
        self.classes: dict[str, int] = {}

    def cls(self, name: str, n: int = 1) -> None:
        self.classes[name] = self.classes.get(name, 0) + n

    def ev(self, prop: str, n: int = 1) -> None:
        self.evals[prop] = self.evals.get(prop, 0) + n

    def add(self, prop: str, kind: str, msg: str) -> None:
        self.counts[prop] = self.counts.get(prop, 0) + 1
        if self.counts[prop] <= 12:
            self.items.append((prop, kind, msg))

    def of(self, *props: str) -> list[tuple[str, str, str]]:
        return [x for x in self.items if x[0] in props]


def check_time(d: Diffs, tm: TempoMap, tick: int, got_us: int, what: str, prop: str = "C01") -> None:
    """got_us (integer microseconds) must be within budget of the exact time of tick."""
    ex = tm.exact(tick)
    if ex >= TIME_LIMIT_US:
        d.skipped_over_limit += 1
        return
    d.ev(prop)
    s = tm.segs(tick)
    err = abs(Fraction(got_us) - ex)
    g = tm.gov(tick)
    w = what.split(" (")[0]
    first, _, rest = w.partition(" ")
    d.cls("time:" + (rest if "/" in first else w))
    d.cls("segment:0" if g == 0 else "segment:1-9" if g < 10 else "segment:10-499" if g < 500 else "segment:500+")
    if tick == tm.ticks[g] and g > 0:
        d.cls("tick_at_tempo_change")
    if g == len(tm.ticks) - 1 and tick > tm.ticks[g] and g > 0:
        d.cls("tick_past_last_tempo")
    if tm.ns[g] < 1000:
        d.cls("bpm_below_1")
    elif tm.ns[g] >= 10**8:
        d.cls("bpm_at_least_1e5")
    fr = ex - (ex.numerator // ex.denominator)
    if abs(fr - HALF) < Fraction(1, 1000):
        d.cls("fraction_within_1e-3_of_half_us")
    if err > s * (HALF + SLACK):
        d.add(prop, "time", f"{what} at tick {tick}: reported {got_us} us, exact {float(ex):.6f} us "
              f"(|error| {float(err):.6f} us > budget {float(s * (HALF + SLACK)):.6f} us for {s} segment(s))")
    elif err > s * HALF:
        d.over_bare += 1
        d.max_excess_bare = max(d.max_excess_bare, err - s * HALF)


def compare(truth: dict, obs: dict, d: Diffs | None = None, time_prop: str = "C01") -> Diffs:
    """Compares an observation (vmon.observe.observe) of a parsed chart with the ground truth."""
    d = d or Diffs()
    res = truth["resolution"]
    tm = TempoMap(res, truth["tempos"])

    # ---- metadata (C10)
    exp_md = expected_metadata(truth["metadata"])
    for f in ALL_FIELDS:
        d.ev("C10")
        if obs["metadata"].get(f, "<missing attribute>") != exp_md[f]:
            d.add("C10", "field", f"metadata.{f}: expected {exp_md[f]!r}, observed {obs['metadata'].get(f)!r}")

    # ---- sync values (C08) and times (C01)
    sy = obs["sync"]
    d.ev("C08")
    if sy["resolution"] != res:
        d.add("C08", "resolution", f"bpm_events.resolution {sy['resolution']} != {res}")
    exp_b = [[t, n / 1000] for t, n in truth["tempos"]]
    got_b = [[t, b] for t, _, b in sy["bpm"]]
    d.ev("C08", len(exp_b))
    if got_b != exp_b:
        d.add("C08", "tempo", f"tempo events differ: {_first_diff(exp_b, got_b)}")
    exp_ts = [[t, u, 4 if l is None else 2**l] for t, u, l in truth["timesigs"]]
    got_ts = [[t, u, l] for t, _, u, l in sy["ts"]]
    d.ev("C08", len(exp_ts))
    if got_ts != exp_ts:
        d.add("C08", "timesig", f"time signatures differ: {_first_diff(exp_ts, got_ts)}")
    exp_a = [[t, us] for t, us in truth["anchors"]]
    got_a = [[t, us] for t, us in sy["anchors"]]
    d.ev("C08", len(exp_a))
    if got_a != exp_a:
        d.add("C08", "anchor", f"anchors differ: {_first_diff(exp_a, got_a)}")
    for t, us, _ in sy["bpm"]:
        check_time(d, tm, t, us, "tempo event", time_prop)
    for t, us, _, _ in sy["ts"]:
        check_time(d, tm, t, us, "time-signature event", time_prop)

    # ---- global events (C09) and times
    for kind in ("text", "section", "lyric"):
        exp = [[t, v] for t, k, v in truth["globals"] if k == kind]
        got = [[t, v] for t, _, v in obs["global"][kind]]
        d.ev("C09", max(1, len(exp)))
        if got != exp:
            d.add("C09", kind, f"{kind} events differ: {_first_diff(exp, got)}")
        for t, us, _ in obs["global"][kind]:
            check_time(d, tm, t, us, f"{kind} event", time_prop)

    # ---- instrument map structure and labels (C06)
    exp_keys = sorted(truth["tracks"])
    got_keys = sorted(obs["tracks"])
    d.ev("C06")
    if exp_keys != got_keys:
        d.add("C06", "keys", f"tracks present: expected {exp_keys}, observed {got_keys}")
    exp_struct: dict[str, list[str]] = {}
    for k in exp_keys:
        i, df = k.split("/")
        exp_struct.setdefault(i, []).append(df)
    if {k: sorted(v) for k, v in obs["keys"].items() if v} != {k: sorted(v) for k, v in exp_struct.items()}:
        d.add("C06", "keystruct", f"instrument map structure: expected {exp_struct}, observed {obs['keys']}")
    for k in got_keys:
        tr = obs["tracks"][k]
        i, df = k.split("/")
        d.ev("C06")
        if tr["instrument"] != i or tr["difficulty"] != df or tr["header_tag"] != header(i, df):
            d.add("C06", "label", f"track stored under {k} is labelled {tr['instrument']}/{tr['difficulty']} "
                  f"header_tag={tr['header_tag']!r}")

    # ---- per track
    for k in exp_keys:
        if k not in obs["tracks"]:
            continue
        compare_track(d, tm, res, k, truth["tracks"][k], obs["tracks"][k], time_prop)
    return d


def compare_track(d: Diffs, tm: TempoMap, res: int, k: str, ttr: dict, otr: dict, time_prop: str = "C01") -> None:
    exp = expected_track(res, ttr)
    # star power + track events: values (C07), times (C01)
    got_sp = [[t, s] for t, _, s in otr["sp"]]
    d.ev("C07", max(1, len(exp["sp"])))
    if got_sp != exp["sp"]:
        d.add("C07", "starpower", f"{k}: star-power phrases differ: {_first_diff(exp['sp'], got_sp)}")
    got_te = [[t, v] for t, _, v in otr["te"]]
    d.ev("C07", max(1, len(exp["te"])))
    if got_te != exp["te"]:
        d.add("C07", "trackevent", f"{k}: track events differ: {_first_diff(exp['te'], got_te)}")
    for t, us, _ in otr["sp"]:
        check_time(d, tm, t, us, f"{k} star-power event", time_prop)
    for t, us, _ in otr["te"]:
        check_time(d, tm, t, us, f"{k} track event", time_prop)

    # notes: count and order (C02)
    exp_ticks = [n["tick"] for n in exp["notes"]]
    got_ticks = [n["tick"] for n in otr["notes"]]
    d.ev("C02")
    if got_ticks != exp_ticks:
        d.add("C02", "ticks", f"{k}: note-event ticks differ ({len(exp_ticks)} expected, {len(got_ticks)} observed): "
              f"{_first_diff(exp_ticks, got_ticks)}")
    by_tick: dict[int, dict] = {}
    for n in otr["notes"]:
        by_tick.setdefault(n["tick"], n)
    for e in exp["notes"]:
        o = by_tick.get(e["tick"])
        if o is None:
            continue
        t = e["tick"]
        d.ev("C02")
        if o["lanes"] != e["lanes"]:
            d.add("C02", "lanes", f"{k} tick {t}: lanes expected {e['lanes']}, observed {o['lanes']}")
        d.ev("C03")
        if o["sustain"] != e["sustain"]:
            d.add("C03", "sustain", f"{k} tick {t}: sustain expected {e['sustain']}, observed {o['sustain']}")
        if o["longest"] != e["longest"]:
            d.add("C03", "longest", f"{k} tick {t}: longest_sustain expected {e['longest']}, observed {o['longest']}")
        if o["end_tick"] != e["end_tick"]:
            d.add("C03", "end_tick", f"{k} tick {t}: end_tick expected {e['end_tick']}, observed {o['end_tick']}")
        if o["end_ts"] < o["ts"]:
            d.add("C03", "end_before_start", f"{k} tick {t}: end_timestamp {o['end_ts']} us before start {o['ts']} us")
        check_time(d, tm, e["end_tick"], o["end_ts"], f"{k} note end (start tick {t})", "C03" if time_prop == "C01" else time_prop)
        d.ev("C04")
        if o["hopo"] != e["hopo"]:
            d.add("C04", "hopo", f"{k} tick {t}: hopo_state expected {e['hopo']}, observed {o['hopo']} "
                  f"(resolution {res}, threshold {hopo_threshold(res)})")
        d.ev("C05")
        if o["sp"] != e["sp"]:
            d.add("C05", "sp", f"{k} tick {t}: star_power index expected {e['sp']}, observed {o['sp']} "
                  f"(phrases {exp['sp'][:8]}{'...' if len(exp['sp']) > 8 else ''})")
        check_time(d, tm, t, o["ts"], f"{k} note", time_prop)
    # last note end (C03): maximum end timestamp over all notes; absent exactly when no notes
    d.ev("C03")
    if not exp["notes"]:
        if otr["last_end"] is not None:
            d.add("C03", "last_end", f"{k}: no notes but last_note_end_timestamp = {otr['last_end']}")
    else:
        if otr["last_end"] is None:
            d.add("C03", "last_end", f"{k}: {len(exp['notes'])} notes but last_note_end_timestamp is None")
        elif otr["notes"]:
            mx = max(n["end_ts"] for n in otr["notes"])
            if otr["last_end"] != mx:
                d.add("C03", "last_end", f"{k}: last_note_end_timestamp {otr['last_end']} us != max end_timestamp {mx} us")
            far = max(exp["notes"], key=lambda n: n["end_tick"])
            check_time(d, tm, far["end_tick"], otr["last_end"], f"{k} last note end", "C03" if time_prop == "C01" else time_prop)


def _first_diff(exp: list, got: list) -> str:
    for i, (a, b) in enumerate(zip(exp, got)):
        if a != b:
            return f"index {i}: expected {a!r}, observed {b!r}"
    if len(exp) != len(got):
        i = min(len(exp), len(got))
        extra = exp[i] if len(exp) > len(got) else got[i]
        return (f"lengths {len(exp)} expected vs {len(got)} observed; first "
                f"{'missing' if len(exp) > len(got) else 'unexpected'} item {extra!r}")
    return "no difference"
