"""Runtime contracts on chartparse's real public functions (icontract; own decorator as fallback).

All conditions RECORD a breach and return True: a raising contract would change which exception
escapes the parser and so disturb the other oracles (and icontract checks nothing after a raise).
Two grades (DESIGN §3.4): deciding contracts restate a clause of a property on an API the property
names; advisory contracts sit on public helpers and only produce diagnostics.
"""
from __future__ import annotations

import bisect
import collections
import functools
import threading
from fractions import Fraction

try:  # installed by setup.sh into .deps
    import icontract

    HAVE_ICONTRACT = True
except Exception:  # pragma: no cover - environment fallback
    icontract = None
    HAVE_ICONTRACT = False

_lock = threading.Lock()
breaches: list[dict] = []  # deciding: {"property", "contract", "message"}
advisories: list[str] = []
counts: collections.Counter = collections.Counter()
installed: dict[str, object] = {}
_tick_cache: dict[int, tuple] = {}
_unhinted_budget = 64


class ContractBreach(AssertionError):
    pass


def breach(prop: str, contract: str, message: str) -> None:
    with _lock:
        counts[f"breach:{contract}"] += 1
        if len(breaches) < 50:
            breaches.append({"property": prop, "contract": contract, "message": message})


def advise(message: str) -> None:
    with _lock:
        counts["advisory_breaches"] += 1
        if len(advisories) < 20:
            advisories.append(message)


def drain(prop: str | None = None) -> list[dict]:
    with _lock:
        if prop is None:
            out = list(breaches)
            breaches.clear()
        else:
            out = [b for b in breaches if b["property"] == prop]
            breaches[:] = [b for b in breaches if b["property"] != prop]
    return out


def _ensure(cond):
    """icontract.ensure with a named condition and explicit error; fallback: same semantics by hand."""
    if HAVE_ICONTRACT:
        return icontract.ensure(cond, error=ContractBreach, enabled=True)  # enabled: icontract switches itself off under `python -O` otherwise

    def deco(fn):
        import inspect

        sig = inspect.signature(fn)
        names = [p for p in inspect.signature(cond).parameters]

        @functools.wraps(fn)
        def wrapper(*a, **k):
            result = fn(*a, **k)
            ba = sig.bind(*a, **k)
            ba.apply_defaults()
            kw = dict(ba.arguments)
            kw["result"] = result
            cond(**{n: kw[n] for n in names})
            return result

        return wrapper

    return deco


# ------------------------------------------------------------------ BPMEvents.timestamp_at_tick (C11, C15)
def _ticks_of(self):
    ent = _tick_cache.get(id(self))
    ev = self.events
    if ent is not None and ent[0] is ev and ent[2] == len(ev):
        return ent[1], ent[3]
    ticks = [e.tick for e in ev]
    ok = bool(ticks) and ticks[0] == 0 and all(a < b for a, b in zip(ticks, ticks[1:]))
    if len(_tick_cache) > 256:
        _tick_cache.clear()
    _tick_cache[id(self)] = (ev, ticks, len(ev), ok)
    return ticks, ok


def _post_timestamp_at_tick(self, tick, start_iteration_index, result):
    counts["timestamp_at_tick:returned"] += 1
    try:
        ticks, ok = _ticks_of(self)
        ts, idx = result
        # C15: returned => tick >= 0 and the governing tempo is positive
        if tick < 0:
            breach("C15", "timestamp_at_tick", f"timestamp_at_tick({tick}) returned {ts} for a negative tick")
        if not ok:
            counts["timestamp_at_tick:unordered_map_skipped"] += 1
            return True
        g = bisect.bisect_right(ticks, tick) - 1
        if g >= 0 and not (self.events[g].bpm > 0):
            breach("C15", "timestamp_at_tick", f"timestamp_at_tick({tick}) returned {ts} although the governing tempo "
                   f"(index {g}) is {self.events[g].bpm} BPM")
        if tick < 0:
            return True
        # C11: index is the governing one; a hint beyond it must not return; hinted == un-hinted
        counts["timestamp_at_tick:c11_evaluated"] += 1
        if idx != g:
            breach("C11", "timestamp_at_tick", f"timestamp_at_tick({tick}, start_iteration_index={start_iteration_index}) "
                   f"returned index {idx}; last tempo event at or before the tick is index {g} (tempo ticks around: {ticks[max(0, g - 1):g + 3]})")
        if start_iteration_index > g:
            breach("C11", "timestamp_at_tick", f"timestamp_at_tick({tick}, start_iteration_index={start_iteration_index}) "
                   f"returned {ts} although the hint lies beyond the governing tempo event {g}")
        if start_iteration_index != 0:
            # un-hinted recomputation through the same public function (its correctness is C01's business)
            n = counts["timestamp_at_tick:c11_evaluated"]
            if g <= _unhinted_budget or n % (1 + g // _unhinted_budget) == 0:
                counts["timestamp_at_tick:unhinted_compared"] += 1
                plain = installed["timestamp_at_tick:orig"](self, tick)
                if plain[0] != ts or plain[1] != idx:
                    breach("C11", "timestamp_at_tick", f"timestamp_at_tick({tick}, start_iteration_index={start_iteration_index}) "
                           f"= {(ts, idx)} but without a hint = {plain}")
    except Exception as e:  # a monitor must never break the run
        counts[f"monitor_error:{type(e).__name__}"] += 1
    return True


# ------------------------------------------------------------------ advisory helpers
def _post_seconds(ticks, bpm, resolution, result):
    counts["seconds_from_ticks_at_bpm:returned"] += 1
    try:
        if ticks < 0 or not (bpm > 0) or resolution <= 0:
            advise(f"seconds_from_ticks_at_bpm({ticks}, {bpm}, {resolution}) returned {result} for invalid arguments")
            return True
        exact = Fraction(ticks) * 60 / (Fraction(bpm) * resolution)
        if exact > 0:
            rel = abs(Fraction(result) - exact) / exact
            if rel > Fraction(1, 10**13):
                advise(f"seconds_from_ticks_at_bpm({ticks}, {bpm}, {resolution}) = {result!r}, exact {float(exact)!r} (rel. error {float(rel):.3e})")
        elif result != 0:
            advise(f"seconds_from_ticks_at_bpm(0 ticks) = {result!r}")
    except Exception as e:
        counts[f"monitor_error:{type(e).__name__}"] += 1
    return True


def _post_duration(resolution, note_duration, result):
    counts["note_duration_to_ticks:returned"] += 1
    try:
        exact = Fraction(resolution) / Fraction(note_duration.value)
        if abs(Fraction(result) - exact) > Fraction(1, 2):
            advise(f"note_duration_to_ticks({resolution}, {note_duration}) = {result}, exact {float(exact)}")
    except Exception as e:
        counts[f"monitor_error:{type(e).__name__}"] += 1
    return True


def _post_during(self, tick, result):
    counts["tick_is_during_event:returned"] += 1
    try:
        if bool(result) != (self.tick <= tick < self.tick + self.sustain):
            advise(f"tick_is_during_event({tick}) = {result} for phrase [{self.tick}, {self.tick + self.sustain})")
    except Exception as e:
        counts[f"monitor_error:{type(e).__name__}"] += 1
    return True


def _post_after(self, tick, result):
    counts["tick_is_after_event:returned"] += 1
    try:
        if bool(result) != (tick >= self.tick + self.sustain):
            advise(f"tick_is_after_event({tick}) = {result} for phrase [{self.tick}, {self.tick + self.sustain})")
    except Exception as e:
        counts[f"monitor_error:{type(e).__name__}"] += 1
    return True


def install(advisory: bool = True) -> None:
    """Decorates the real functions in place (class / module attributes looked up at call time)."""
    if installed:
        return
    import chartparse.instrument
    import chartparse.sync
    import chartparse.tick

    B = chartparse.sync.BPMEvents
    orig = B.timestamp_at_tick
    installed["timestamp_at_tick:orig"] = orig
    B.timestamp_at_tick = _ensure(_post_timestamp_at_tick)(orig)
    if advisory:
        t = chartparse.tick
        if hasattr(t, "seconds_from_ticks_at_bpm"):
            installed["seconds:orig"] = t.seconds_from_ticks_at_bpm
            t.seconds_from_ticks_at_bpm = _ensure(_post_seconds)(t.seconds_from_ticks_at_bpm)
        S = getattr(chartparse.instrument, "SpecialEvent", None)
        if S is not None and hasattr(S, "tick_is_during_event"):
            S.tick_is_during_event = _ensure(_post_during)(S.tick_is_during_event)
            S.tick_is_after_event = _ensure(_post_after)(S.tick_is_after_event)
