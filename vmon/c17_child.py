"""Fresh-interpreter baseline for C17: parses each text given on stdin (JSON list of {text, want}) in ITS OWN
process state? No — one process per invocation; the caller passes exactly one text per invocation for the
baseline. Prints the canonical outcome JSON (observation digest / error type+message / warnings)."""
import json
import sys


def main():
    job = json.loads(sys.stdin.read())
    from vmon import harness
    from vmon.props import c17

    harness.setup(with_contracts=False)
    print(json.dumps([c17.outcome_of(j["text"], j.get("want"), j.get("path_bytes_hex")) for j in job]))


main()
