"""Shared driver of the reference-model checks: parse a generated case with the real parser,
observe it through public attributes, compare with the model, report this property's discrepancies."""
from __future__ import annotations

from vmon import contracts, harness, model


def select(d: model.Diffs, props: tuple, extra=None) -> list:
    out = []
    for p, kind, msg in d.items:
        if p in props or (extra and extra(p, kind)):
            out.append((p, kind, msg))
    return out


def all_present(case: dict, rng=None) -> list:
    """a selection naming every track of the case (shuffled) plus one absent pair: the parse must equal the unrestricted one"""
    pairs = [k.split("/") for k in case["truth"].get("tracks", {})]
    absent = next(([i, d] for i, d in model.ALL_PAIRS if f"{i}/{d}" not in case["truth"].get("tracks", {})), None)
    if rng is not None:
        rng.shuffle(pairs)
    return pairs + ([absent] if absent else [])


def judge(rec, props: tuple, case: dict, *, want=None, extra=None, key=None, slim: bool = True):
    """Returns (outcome, observation|None, Diffs|None). Records evaluations, classes, violations."""
    if len(case["text"]) % 5 == 2:
        # every fifth chart is read while the application has the library's reports silenced (logging.disable(WARNING) / the package
        # logger at ERROR, alternating): what a well-formed chart decodes to does not depend on who is listening
        with harness.quiet(len(case["text"]) // 5):
            out = harness.parse(case["text"], harness.pairs(want) if want is not None else None)
        rec.cls("chart_read_with_the_library's_reports_silenced")
    else:
        out = harness.parse(case["text"], harness.pairs(want) if want is not None else None)
    rcase = {"text": case["text"], "truth": case["truth"]}
    if want is not None:
        rcase["want"] = want
    if not out.ok:
        rec.ev()
        rec.violation("well-formed-chart-rejected",
                      f"a well-formed chart was rejected with {harness.exc_str(out.exc)}; no event was produced for it",
                      rcase, f"rejected:{type(out.exc).__name__}")
        return out, None, None
    if len(case["text"]) % 11 == 4 and len(case["text"]) < 40000 and __import__("threading").current_thread() is __import__("threading").main_thread():
        # a freshly returned chart handed to several threads at once: each reads all of it (stored and derived attributes) while the
        # others do; switches are provoked between chartparse statements. Each reader must see the chart a lone reader sees.
        shared = shared_first_read(rec, out.chart)
        if shared is not None:
            rec.ev()
            rec.violation("unreadable", "a freshly parsed chart first read by 4 threads at once: " + shared, dict(rcase, shared_first_read=True),
                          "fresh-chart-read-by-several-threads")
            return out, None, None
        rec.cls("fresh_chart_first_read_by_4_threads_at_once")
    if len(case["text"]) % 17 == 5 and len(case["text"]) < 40000:
        # before the application reads it, the chart is looked at the way a debugger's variable pane or a serialiser looks at objects
        try:
            harness.enumerate_attributes(out.chart)
            rec.cls("every_attribute_of_the_chart_enumerated_before_it_was_read")
        except Exception:  # noqa
            pass
    if len(case["text"]) % 13 == 6 and len(case["text"]) < 40000:
        # the application's FIRST reads of the chart are cut short (a timeout, Ctrl-C: an asynchronous exception somewhere inside a
        # read); it catches that and reads again. The chart then shows what any chart of this text shows.
        import random as _random

        if harness.interrupted(lambda: harness.obs(out.chart), _random.Random(len(case["text"])), 5, rec):
            rec.cls("first_reads_of_the_chart_were_aborted_midway")
            rcase["aborted_first_reads"] = True
    try:
        ob = harness.obs(out.chart)
    except Exception as e:  # noqa
        # the observation reads documented public attributes the documented way (iteration, len, indexing, attribute access): a
        # returned chart on which that raises does not show the data any property speaks about
        import traceback

        tb = traceback.extract_tb(e.__traceback__)
        where = next((f"{f.filename.split('/')[-1]}:{f.lineno} {f.line}" for f in reversed(tb) if "/vmon/observe.py" in f.filename), "?")
        rec.ev()
        rec.violation("unreadable", f"reading the returned chart's public attributes raised {harness.exc_str(e)} at {where}", rcase,
                      f"chart-not-readable:{type(e).__name__}")
        return out, None, None
    if len(case["text"]) < 12000 and len(case["text"]) % 2:
        # the public sequences are sequences: reading everything a SECOND time, and len() / first / last / slice / `in` / reversed on
        # each event list, must show the same events (a lazily produced or one-shot attribute shows them once)
        try:
            again = harness.obs(out.chart) == ob and sequences_ok(out.chart)
        except Exception as e:  # noqa
            again = f"raised {harness.exc_str(e)}"
        rec.ev()
        if again is not True:
            rec.violation("unreadable", "the returned chart's public event sequences do not behave like sequences: "
                          + (again if isinstance(again, str) else "a second reading of the same attributes shows other data than the first"),
                          rcase, "chart-sequences-not-stable")
            return out, None, None
    if len(case["text"]) < 20000 and len(case["text"]) % 3 == 0:
        # the chart as seen through the standard copy protocols: a deep copy and a pickle round trip show the very data the
        # original shows (whether a chart CAN be copied is not stated: a refusal is skipped; a copy that shows other data is not)
        import copy
        import pickle

        for how, fn in (("copy.deepcopy", copy.deepcopy), ("a pickle round trip", lambda c_: pickle.loads(pickle.dumps(c_)))):
            try:
                dup = fn(out.chart)
            except Exception:  # noqa
                rec.mon("copy_refused")
                continue
            try:
                same = harness.obs(dup) == ob
            except Exception as e:  # noqa
                same = f"reading the copy raised {harness.exc_str(e)}"
            rec.ev()
            rec.mon("copies_observed")
            if same is not True:
                dd = model.compare(case["truth"], harness.obs(dup)) if same is False else None
                mine_ = select(dd, props, extra) if dd is not None else []
                if same is not False or mine_:
                    rec.violation("copy-differs", f"{how} of the returned chart shows other data than the chart itself: "
                                  + (same if isinstance(same, str) else mine_[0][2]), dict(rcase, copied=how), "copy-shows-other-data")
                    return out, None, None
    if len(case["text"]) % 19 == 7 and len(case["text"]) < 40000:
        # the parts of a chart outlive the chart: an application keeps a track / the tempo map / the metadata and lets the Chart object
        # go (a helper returning Chart.from_file(f)[instrument][difficulty]); after the chart is gone and the collector has run, the parts
        # still show what they showed
        import gc
        import types

        o2 = harness.parse(case["text"], harness.pairs(want) if want is not None else None)
        if o2.ok:
            c2 = o2.chart
            parts = types.SimpleNamespace(metadata=c2.metadata, sync_track=c2.sync_track, global_events_track=c2.global_events_track,
                                          instrument_tracks=c2.instrument_tracks)
            o2.chart = None
            del c2, o2
            gc.collect()
            rec.ev()
            try:
                same = harness.obs(parts) == ob
            except Exception as e:  # noqa
                same = f"reading them raised {harness.exc_str(e)}"
            if same is not True:
                rec.violation("unreadable", "the parts of a chart (metadata, sync track, global events, instrument tracks) read after the Chart object itself was "
                              "dropped and collected " + ("show other data than the same parts of a live chart" if same is False else same),
                              dict(rcase, chart_dropped=True), "parts-of-a-dropped-chart-differ")
                return out, None, None
            rec.cls("parts_of_a_chart_read_after_the_chart_was_dropped")
    d = model.compare(case["truth"], ob)
    n = sum(d.evals.get(p, 0) for p in props)
    rec.ev(n)
    if "C01" in props:
        for k, v in d.classes.items():
            rec.cls(k, v)
    mine = select(d, props, extra)
    if mine:
        p, kind, msg = mine[0]
        more = f" (+{len(mine) - 1} more discrepancies)" if len(mine) > 1 else ""
        rec.violation(kind, msg + more, rcase, f"{p}:{kind}")
    elif key is not None:
        rec.key(key)
    if d.over_bare:
        rec.mon("times_beyond_bare_half_us_but_within_float_slack", d.over_bare)
        rec.mx("max_excess_over_bare_budget_us", float(d.max_excess_bare))
    if d.skipped_over_limit:
        rec.mon("times_at_or_above_1e6_s_skipped", d.skipped_over_limit)
    return out, ob, d


def shared_first_read(rec, chart):
    """returns None, or what went wrong"""
    import sys
    import threading

    got, errs = [], []

    def reader():
        try:
            got.append(harness.obs(chart))
        except BaseException as e:  # noqa
            errs.append(harness.exc_str(e))

    old = sys.getswitchinterval()
    sys.setswitchinterval(1e-6)
    try:
        with harness.yields(0.05, len(got)) as inj:
            ths = [threading.Thread(target=reader) for _ in range(4)]
            for t in ths:
                t.start()
            for t in ths:
                t.join(300)
        if inj is not None:
            rec.mon("thread_switches_provoked_inside_chartparse_during_shared_first_reads", inj.switches)
    finally:
        sys.setswitchinterval(old)
    if any(t.is_alive() for t in ths):
        rec.inconc("shared first read: reader threads still running after 300 s (watchdog)")
        return None
    if errs:
        return f"a reader raised {errs[0]}"
    if any(g != got[0] for g in got[1:]):
        k = next(i for i, g in enumerate(got) if g != got[0])
        keys = [x for x in got[0] if got[0][x] != got[k].get(x)]
        return f"two readers saw different data (differing parts: {keys[:4]})"
    try:
        if harness.obs(chart) != got[0]:
            return "afterwards a lone reader sees other data than the concurrent readers saw"
    except Exception as e:  # noqa
        return f"afterwards reading the chart raises {harness.exc_str(e)}"
    return None


def sequences_ok(chart):
    st, ge = chart.sync_track, chart.global_events_track
    seqs = [("time_signature_events", st.time_signature_events), ("anchor_events", st.anchor_events), ("bpm_events", st.bpm_events),
            ("text_events", ge.text_events), ("section_events", ge.section_events), ("lyric_events", ge.lyric_events)]
    for m in chart.instrument_tracks.values():
        for tr in m.values():
            seqs += [("note_events", tr.note_events), ("star_power_events", tr.star_power_events), ("track_events", tr.track_events)]
    for name, sq in seqs:
        items = [e for e in sq]
        if len(sq) != len(items):
            return f"len({name}) = {len(sq)} but iteration yields {len(items)} events"
        if items:
            if sq[0] != items[0] or sq[-1] != items[-1] or sq[len(items) - 1] != items[-1]:
                return f"{name}[0] / [-1] are not the first / last event of its iteration"
            if list(sq[0:2]) != items[0:2] or list(reversed(sq)) != items[::-1] or items[-1] not in sq:
                return f"{name}: slicing / reversed / membership disagree with iteration"
        if [e for e in sq] != items:
            return f"{name}: a second iteration yields other events than the first"
    return True


def replay_case(rec, props: tuple, case: dict, extra=None):
    if case.get("concurrent"):
        for _ in range(5):
            threaded_stage(rec, props, [case], extra, repeats=6)
            if rec.violations:
                return None
    if case.get("shared_first_read"):
        for _ in range(12):
            o_ = harness.parse(case["text"], harness.pairs(case["want"]) if case.get("want") is not None else None)
            if o_.ok:
                sh = shared_first_read(rec, o_.chart)
                rec.ev()
                if sh is not None:
                    rec.violation("unreadable", "a freshly parsed chart first read by 4 threads at once: " + sh, case, "fresh-chart-read-by-several-threads")
                    return None
    res = judge(rec, props, case, want=case.get("want"), extra=extra)
    if case.get("constructor_route") and res[0].ok:
        for _ in range(3):
            constructor_route(rec, props, case, res[0])
    if case.get("direct_section") and res[0].ok:
        from vmon import gen as _gen

        secs = _gen.split_sections(case["text"])
        for _ in range(len(_FORMS)):
            direct_sections(rec, props, {"text": case["text"], "truth": case["truth"], "sections": secs}, res[0])
    return res


# ------------------------------------------------------------------------------------------ concurrent re-judging
class Keep:
    """Remembers a few small cases of a shard for the concurrent stage."""

    def __init__(self, limit: int = 10, max_chars: int = 30000) -> None:
        self.cases: list[dict] = []
        self.limit, self.max_chars = limit, max_chars

    def add(self, case: dict) -> None:
        if len(case["text"]) <= self.max_chars:
            if len(self.cases) < self.limit:
                self.cases.append({"text": case["text"], "truth": case["truth"]})
            else:  # keep a spread over the shard, not only its first cases
                import random

                j = random.Random(len(case["text"])).randrange(self.limit * 3)
                if j < self.limit:
                    self.cases[j] = {"text": case["text"], "truth": case["truth"]}


def threaded_stage(rec, props: tuple, cases: list[dict], extra=None, nthreads: int = 4, repeats: int = 2, first: dict | None = None) -> None:
    """The property is stated for every chart, not for every chart parsed alone: the same cases are parsed again by
    several threads at once (tiny switch interval; parsing and observing only — the comparison with the model
    happens afterwards in the main thread), and each concurrent observation must still match the ground truth."""
    import sys
    import threading

    if not cases:
        return
    results: list = []
    errors: list = []

    def worker(k: int) -> None:
        try:
            if first is not None:  # a case no thread (and nothing before in this process) has parsed yet, parsed by all at once
                out = harness.parse(first["text"])
                results.append((first, out.exc, harness.obs(out.chart) if out.ok else None))
            for r in range(repeats):
                for j in range(len(cases)):
                    c = cases[(j + k * 3 + r) % len(cases)]
                    out = harness.parse(c["text"])
                    results.append((c, out.exc, harness.obs(out.chart) if out.ok else None))
        except BaseException as e:  # noqa
            errors.append(f"{type(e).__name__}: {e}")

    old = sys.getswitchinterval()
    sys.setswitchinterval(1e-6)
    try:
        ths = [threading.Thread(target=worker, args=(k,)) for k in range(nthreads)]
        for t in ths:
            t.start()
        for t in ths:
            t.join(300)
    finally:
        sys.setswitchinterval(old)
    if any(t.is_alive() for t in ths):
        rec.inconc("concurrent stage: parser threads still running after 300 s (watchdog)")
        return
    for e in errors[:1]:
        # an exception escaping observe() under concurrency is itself a witness that a concurrent parse went wrong
        rec.violation("concurrent-parse-broke-observation", f"concurrent stage ({nthreads} threads): observing a parsed chart raised {e}",
                      {"text": cases[0]["text"], "truth": cases[0]["truth"], "concurrent": True}, "concurrent:observe-raised")
    for c, exc, ob in results:
        rec.mon("concurrent_parses")
        rcase = {"text": c["text"], "truth": c["truth"], "concurrent": True}
        if ob is None:
            rec.ev()
            rec.violation("well-formed-chart-rejected", f"parsed concurrently with {nthreads - 1} other threads, a well-formed chart was "
                          f"rejected with {harness.exc_str(exc)}", rcase, f"concurrent:rejected:{type(exc).__name__}")
            continue
        d = model.compare(c["truth"], ob)
        rec.ev(sum(d.evals.get(p, 0) for p in props))
        mine = select(d, props, extra)
        if mine:
            p, kind, msg = mine[0]
            rec.violation(kind, f"parsed concurrently with {nthreads - 1} other threads: {msg}", rcase, f"concurrent:{p}:{kind}")
            return
    rec.cls("concurrent_stage")


# ------------------------------------------------------------------------------------------ whole generated charts
_FORMS = [("list", list), ("tuple", tuple), ("generator", lambda b: (ln for ln in b)), ("iterator", lambda b: iter(list(b))),
          ("map object", lambda b: map(str, b))]
_form_counter = 0
TRACK_PROPS = ("C02", "C03", "C04", "C05", "C07")


def direct_sections(rec, props: tuple, case: dict, out) -> bool:
    """The documented per-section entry points (Metadata / SyncTrack / GlobalEventsTrack / InstrumentTrack .from_chart_lines, each
    taking "an iterable of strings") are handed the section's body lines as a list, a tuple, a generator, a one-shot iterator or
    a map object (rotating): each must decode exactly what the whole-chart parse decoded from the same lines."""
    global _form_counter
    import chartparse.globalevents as G
    import chartparse.instrument as I
    import chartparse.metadata as M
    import chartparse.sync as S

    from vmon import harness, model, observe

    chart = out.chart
    be = chart.sync_track.bpm_events
    if _form_counter % 3 == 1:
        # the chart's tempo map has been in use (640 un-hinted questions) before sections are decoded against it
        harness.wear(be)
        rec.cls("sections_decoded_against_a_tempo_map_that_has_answered_640_questions")
    by_header = {model.header(i, d): (i, d) for i, d in model.ALL_PAIRS}
    ok = True
    for name, body in case["sections"]:
        if name == "Song":
            tag, fn, want = ("C10",), lambda b: observe.observe_metadata(M.Metadata.from_chart_lines(b)), observe.observe_metadata(chart.metadata)
        elif name == "SyncTrack":
            tag, fn, want = ("C08",), lambda b: observe.observe_sync(S.SyncTrack.from_chart_lines(be.resolution, b)), observe.observe_sync(chart.sync_track)
        elif name == "Events":
            tag, fn, want = ("C09",), lambda b: observe.observe_global(G.GlobalEventsTrack.from_chart_lines(b, be)), observe.observe_global(chart.global_events_track)
        elif name in by_header:
            i, d = by_header[name]
            inst, diff = harness.Instrument[i], harness.Difficulty[d]
            if inst not in chart.instrument_tracks or diff not in chart.instrument_tracks[inst]:
                continue
            tag = TRACK_PROPS
            fn = lambda b, inst=inst, diff=diff: observe.observe_track(I.InstrumentTrack.from_chart_lines(inst, diff, b, be))  # noqa: E731
            want = observe.observe_track(chart.instrument_tracks[inst][diff])
        else:
            continue
        if not set(tag) & set(props):
            continue
        _form_counter += 1
        fname, form = _FORMS[_form_counter % len(_FORMS)]
        rec.ev()
        rcase = {"text": case["text"], "truth": case["truth"], "direct_section": name, "form": fname}
        try:
            got = fn(form(list(body)))
        except Exception as e:  # noqa
            rec.violation("direct-section-entry", f"[{name}] body handed to its from_chart_lines as a {fname}: raised {harness.exc_str(e)} although "
                          "the whole-chart parse decoded the same lines", rcase, f"direct-entry:{fname}:raised")
            ok = False
            continue
        if name in by_header and _form_counter % 4 == 2 and got == want and len(body) <= 400:
            if not regridded(rec, props, case, name, body, be, by_header[name]):
                ok = False
                continue
        if got != want:
            keys = [k for k in want if got.get(k) != want[k]] if isinstance(want, dict) else []
            rec.violation("direct-section-entry", f"[{name}] body ({len(body)} lines) handed to its from_chart_lines as a {fname} decodes differently "
                          f"from the whole-chart parse of the same lines (differing parts: {keys[:5]})", rcase, f"direct-entry:{fname}:differs")
            ok = False
        else:
            rec.cls(f"direct_section_entry:{fname}")
    return ok


def regridded(rec, props: tuple, case: dict, name: str, body: list, be, pair) -> bool:
    """A tempo map recombined through the public constructors: the FIRST event of the parsed map (tick 0, time 0, its tempo) inside a
    `BPMEvents` of ANOTHER resolution - a song re-gridded by the application. The section's lines decoded against that map are judged
    against the exact model of that map (one tempo, the new resolution): whatever a parsed tempo event carries along from the chart that
    made it is not part of the new map. A TypeError from the constructor (signature changed) is skipped."""
    import chartparse.instrument as I
    import chartparse.sync as S

    from vmon import harness, model, observe

    i, d_ = pair
    ttr = case["truth"].get("tracks", {}).get(f"{i}/{d_}")
    if ttr is None or not case["truth"].get("tempos"):
        return True
    res = case["truth"]["resolution"]
    res2 = 480 if res != 480 else 192
    n0 = case["truth"]["tempos"][0][1]
    try:
        be2 = S.BPMEvents(events=[be[0]], resolution=res2)
    except TypeError:
        rec.mon("regridded_map_skipped")
        return True
    except Exception as e:  # noqa
        rec.diag(f"regridded map refused: {harness.exc_str(e)}")
        return True
    tm2 = model.TempoMap(res2, [[0, n0]])
    rec.ev()
    rcase = {"text": case["text"], "truth": case["truth"], "direct_section": name, "regridded": res2}
    try:
        tr2 = I.InstrumentTrack.from_chart_lines(harness.Instrument[i], harness.Difficulty[d_], list(body), be2)
        otr = observe.observe_track(tr2)
    except Exception as e:  # noqa
        rec.violation("direct-section-entry", f"[{name}] decoded against a one-tempo map built from the parsed map's first event with resolution {res2}: raised "
                      f"{harness.exc_str(e)}", rcase, "regridded-map:raised")
        return False
    d2 = model.Diffs()
    model.compare_track(d2, tm2, res2, f"{i}/{d_}", ttr, otr)
    mine = [x for x in d2.items if x[0] in props or x[0] in ("C01", "C03")]
    if mine:
        rec.violation("direct-section-entry", f"[{name}] decoded against a map made of the parsed map's FIRST tempo event and resolution {res2} (a re-gridded song): "
                      f"{mine[0][2]}", rcase, "regridded-map:differs")
        return False
    rec.cls("section_decoded_against_a_regridded_one_tempo_map")
    return True


def whole_charts(rec, props: tuple, seed: int, pid: str, shard_name: str, count: int, extra=None, on_ok=None, **kw) -> None:
    """Every property is stated for charts, not for one section in isolation: besides its focused workload each check judges whole
    generated charts (all sections populated: metadata of every field, busy tempo maps, all global-event kinds, several tracks with
    chords / open notes / flags / held notes / phrases / track events, realistic and hostile profiles alternating)."""
    from vmon import gen, harness

    for i in range(count):
        rng = harness.rng_for(seed, pid, shard_name, i)
        args = dict(n_tracks=rng.choice([0, 1, 2, 4]), n_groups=rng.choice([3, 30, 150]), n_globals=rng.choice([0, 6, 60]),
                    n_tempos=rng.choice([1, 2, 6, 25]), pad=i % 4 == 1)
        args.update(kw)
        if i % 4 == 3 and not kw:
            # ordinary features piled on the same few ticks (tempo + signature + anchor + three kinds of global events + notes of
            # every shape in several tracks + phrases that start / end / are empty there + sustains released there)
            case = gen.interaction_chart(rng)
            rec.cls("whole_chart_with_coinciding_features")
        else:
            case = gen.gen_chart(rng, "hostile" if i % 2 else "realistic", **args)
        out, ob, d = judge(rec, props, case, extra=extra)
        if d is not None and not select(d, props, extra):
            if direct_sections(rec, props, case, out):
                rec.cls("whole_generated_chart")
                rec.key(["whole", case["text"]])
                if on_ok is not None:
                    on_ok(case, out)
        if rec.full:
            break


# ------------------------------------------------------------------------------------------ notes built through the public factories
_ROUTE = 0


def constructor_route(rec, props: tuple, case: dict, out, max_notes: int = 400) -> bool:
    """A note event is a note event however it was obtained: the documented factory NoteEvent.from_parsed_data(datas, prev_event,
    star_power_events, bpm_events[, proximal_bpm_event_index, star_power_event_index]) is fed data objects built with the public
    NoteEvent.ParsedData constructor (not parsed from text), with the two "for optimization only" hints passed by keyword,
    positionally in the documented order, or left out (rotating); every note must equal the one the whole-chart parse produced.
    A TypeError from the call itself (signature no longer callable this way) is reported as skipped, never as a violation."""
    global _ROUTE
    if not set(props) & set(TRACK_PROPS):
        return True
    import chartparse.instrument as I

    from vmon import harness, observe

    chart = out.chart
    be = chart.sync_track.bpm_events
    if _ROUTE % 3 == 1:
        harness.wear(be)
        rec.cls("notes_built_against_a_tempo_map_that_has_answered_640_questions")
    for key, ttr in case["truth"].get("tracks", {}).items():
        i, d = key.split("/")
        tr = chart.instrument_tracks.get(harness.Instrument[i], {}).get(harness.Difficulty[d])
        if tr is None or not ttr["groups"] or len(ttr["groups"]) != len(tr.note_events):
            continue
        _ROUTE += 1
        form = ("keyword", "positional", "omitted")[_ROUTE % 3]
        sps = tr.star_power_events
        if _ROUTE % 2:
            # the call before FAILED: the public factories are handed data they must refuse part-way (a star-power datum among the note
            # data) - what they had gathered by then is not the next note's business
            for bad in ([I.NoteEvent.ParsedData(tick=0, note_track_index=I.NoteTrackIndex(1), sustain=0), I.StarPowerEvent.ParsedData(tick=0, sustain=5)],):
                for fn_ in (lambda b: I.Note.from_parsed_datas(b), lambda b: I.NoteEvent.from_parsed_data(b, None, sps, be)):
                    try:
                        fn_(bad)
                    except Exception:  # noqa
                        rec.mon("factory_calls_that_failed_right_before_a_note_was_built")
        prev, bi, si = None, 0, 0
        rcase = {"text": case["text"], "truth": case["truth"], "constructor_route": key, "form": form}
        for k, g in enumerate(ttr["groups"][:max_notes]):
            fl = g.get("flag_len", 0)
            pairs = ([(7, g["open"])] if g.get("open") is not None else []) + [(int(x), g["lanes"][x]) for x in sorted(g["lanes"], key=int)] + \
                ([(5, fl)] if g.get("forced") else []) + ([(6, fl)] if g.get("tap") else [])
            rec.ev()
            try:
                datas = [I.NoteEvent.ParsedData(tick=g["tick"], note_track_index=I.NoteTrackIndex(idx), sustain=ln) for idx, ln in pairs]
                if form == "keyword":
                    ev, bi, si = I.NoteEvent.from_parsed_data(datas, prev, sps, be, proximal_bpm_event_index=bi, star_power_event_index=si)
                elif form == "positional":
                    ev, bi, si = I.NoteEvent.from_parsed_data(datas, prev, sps, be, bi, si)
                else:
                    ev, _, _ = I.NoteEvent.from_parsed_data(datas, prev, sps, be)
            except TypeError as e:
                rec.mon("constructor_route_skipped")
                rec.diag(f"constructor route skipped: {e}")
                return True
            except Exception as e:  # noqa
                rec.violation("constructor-route", f"{key} note #{k} (tick {g['tick']}): NoteEvent.from_parsed_data on constructor-built data (hints {form}) "
                              f"raised {harness.exc_str(e)} although the whole-chart parse built this note", rcase, f"constructor-route:{form}:raised")
                return False
            got, want = observe.observe_note(ev), observe.observe_note(tr.note_events[k])
            if got != want:
                diff = {f: (want[f], got[f]) for f in want if got[f] != want[f]}
                rec.violation("constructor-route", f"{key} note #{k} (tick {g['tick']}): built through NoteEvent.ParsedData(...) + from_parsed_data (hints "
                              f"{form}) it differs from the parsed note: (parsed, built) = {diff}", rcase, f"constructor-route:{form}:differs")
                return False
            prev = ev
        rec.cls(f"notes_built_through_public_factories:hints_{form}")
        if _ROUTE % 4 == 2 and case.get("sections"):
            hname = model.header(i, d)
            body = next((b for n_, b in case["sections"] if n_ == hname), None)
            if body is not None and len(body) <= 600 and not regridded(rec, props, case, hname, body, be, (i, d)):
                return False
    return True
