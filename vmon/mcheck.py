"""Shared driver of the reference-model checks: parse a generated case with the real parser,
observe it through public attributes, compare with the model, report this property's discrepancies."""
from __future__ import annotations

from vmon import contracts, harness, model


def select(d: model.Diffs, props: tuple, extra=None) -> list:
    out = []
    for p, kind, msg in d.items:
        if p in props or (extra and extra(p, kind)):
            out.append((p, kind, msg))
    return out


def judge(rec, props: tuple, case: dict, *, want=None, extra=None, key=None, slim: bool = True):
    """Returns (outcome, observation|None, Diffs|None). Records evaluations, classes, violations."""
    out = harness.parse(case["text"], harness.pairs(want) if want is not None else None)
    rcase = {"text": case["text"], "truth": case["truth"]}
    if want is not None:
        rcase["want"] = want
    if not out.ok:
        rec.ev()
        rec.violation("well-formed-chart-rejected",
                      f"a well-formed chart was rejected with {harness.exc_str(out.exc)}; no event was produced for it",
                      rcase, f"rejected:{type(out.exc).__name__}")
        return out, None, None
    ob = harness.obs(out.chart)
    d = model.compare(case["truth"], ob)
    n = sum(d.evals.get(p, 0) for p in props)
    rec.ev(n)
    if "C01" in props:
        for k, v in d.classes.items():
            rec.cls(k, v)
    mine = select(d, props, extra)
    if mine:
        p, kind, msg = mine[0]
        more = f" (+{len(mine) - 1} more discrepancies)" if len(mine) > 1 else ""
        rec.violation(kind, msg + more, rcase, f"{p}:{kind}")
    elif key is not None:
        rec.key(key)
    if d.over_bare:
        rec.mon("times_beyond_bare_half_us_but_within_float_slack", d.over_bare)
        rec.mx("max_excess_over_bare_budget_us", float(d.max_excess_bare))
    if d.skipped_over_limit:
        rec.mon("times_at_or_above_1e6_s_skipped", d.skipped_over_limit)
    return out, ob, d


def replay_case(rec, props: tuple, case: dict, extra=None):
    return judge(rec, props, case, want=case.get("want"), extra=extra)
