"""Boundary probes: record-and-continue wrappers around chartparse's public entry points.

SectionProbe  - what each section parser receives (callee, instrument, difficulty, lines)
DispatchProbe - per call of parse_data_from_chart_lines: lines offered, data returned per kind, warnings emitted
Both materialise the `lines` iterable once into a list and pass the list on; a refactor that removes an
attach point leaves the probe inactive (counted), never broken.
"""
from __future__ import annotations

import functools
import inspect
import threading

from vmon import env

_tls = threading.local()
status: dict[str, str] = {}


def _log() -> list:
    b = getattr(_tls, "log", None)
    if b is None:
        b = _tls.log = []
    return b


def drain() -> list:
    b = _log()
    out = list(b)
    b.clear()
    return out


def _same_kind(given, lines):
    """The probe must read the lines without changing what the callee is handed: a re-iterable object is passed on as it is
    (reading it consumed nothing), a one-shot iterator (which reading has exhausted) is replaced by a fresh ONE-SHOT iterator over
    the same lines — never by a list, which would let a callee that wrongly walks its argument twice get away with it."""
    try:
        one_shot = iter(given) is given
    except TypeError:
        one_shot = False
    return iter(lines) if one_shot else given


def _wrap_classmethod(cls, name, label):
    try:
        orig = getattr(cls, name).__func__
        params = list(inspect.signature(orig).parameters)
    except Exception as e:  # attach point gone
        status[label] = f"skipped ({type(e).__name__})"
        return
    lname = next((p for p in params if p in ("lines", "lines_iter")), None)
    if lname is None:
        status[label] = "skipped (no lines parameter)"
        return

    @functools.wraps(orig)
    def wrapper(c, *a, **k):
        try:
            ba = inspect.signature(orig).bind(c, *a, **k)
            given = ba.arguments[lname]
            lines = list(given)
            ba.arguments[lname] = _same_kind(given, lines)
            rec = {"probe": "section", "callee": label, "lines": lines,
                   "instrument": getattr(ba.arguments.get("instrument"), "name", None),
                   "difficulty": getattr(ba.arguments.get("difficulty"), "name", None)}
            _log().append(rec)
            a, k = ba.args[1:], ba.kwargs
        except Exception:
            status[label] = "bind failed"
        return orig(c, *a, **k)

    setattr(cls, name, classmethod(wrapper))
    status[label] = "active"


def install_section_probe():
    if "section_installed" in status:
        return
    import chartparse.globalevents as G
    import chartparse.instrument as I
    import chartparse.metadata as M
    import chartparse.sync as S

    _wrap_classmethod(M.Metadata, "from_chart_lines", "Metadata")
    _wrap_classmethod(S.SyncTrack, "from_chart_lines", "SyncTrack")
    _wrap_classmethod(G.GlobalEventsTrack, "from_chart_lines", "GlobalEventsTrack")
    _wrap_classmethod(I.InstrumentTrack, "from_chart_lines", "InstrumentTrack")
    status["section_installed"] = "yes"


def install_dispatch_probe():
    if "dispatch_installed" in status:
        return
    import chartparse.track as T

    try:
        orig = T.parse_data_from_chart_lines
    except AttributeError:
        status["dispatch"] = "skipped (parse_data_from_chart_lines gone)"
        status["dispatch_installed"] = "yes"
        return

    try:
        sig = inspect.signature(orig)
        has = {"types", "lines"} <= set(sig.parameters)
    except Exception:
        sig, has = None, False
    if not has:
        status["dispatch"] = "skipped (no types/lines parameters)"
        status["dispatch_installed"] = "yes"
        return

    @functools.wraps(orig)
    def wrapper(*a, **k):
        # whatever the signature has become: bind, materialise `lines` once, pass everything else through untouched
        try:
            ba = sig.bind(*a, **k)
            types = tuple(ba.arguments["types"])
            given = ba.arguments["lines"]
            lines = list(given)
            ba.arguments["lines"] = _same_kind(given, lines)  # `types` is handed on as the caller gave it (list, tuple, ...), not as our tuple
            a, k = ba.args, ba.kwargs
        except Exception:
            status["dispatch"] = "bind failed"
            return orig(*a, **k)
        before = env.LOG.track_warnings_for_thread()
        m = orig(*a, **k)
        try:
            per_kind = {t.__qualname__: len(m[t]) for t in types}
            _log().append({"probe": "dispatch", "kinds": [t.__qualname__ for t in types], "types": list(types), "lines": lines,
                           "data": per_kind, "warnings": env.LOG.track_warnings_for_thread() - before})
        except Exception:
            status["dispatch"] = "result not inspectable"
        return m

    T.parse_data_from_chart_lines = wrapper
    status["dispatch"] = "active"
    status["dispatch_installed"] = "yes"
