"""Process environment for every vmon child: where the repository is, how chartparse is imported.

Nothing here asserts anything about chartparse; it only makes sure the code under observation is
the working tree named by VMON_REPO (default /repo) and that logging noise goes to our probe.
"""
from __future__ import annotations

import logging
import os
import sys
import threading

VERIF = os.path.dirname(os.path.dirname(os.path.abspath(__file__)))
REPO = os.path.abspath(os.environ.get("VMON_REPO", "/repo"))
PY = "/venv/bin/python" if os.path.exists("/venv/bin/python") else sys.executable
GUARD = "CHARTPARSE_VERIF"  # read only by /verif code; no hook exists in /repo


def seed() -> int:
    try:
        return int(os.environ.get("VERIF_SEED", "0"))
    except ValueError:
        return 0


def child_env(extra: dict | None = None) -> dict:
    e = dict(os.environ)
    deps = os.path.join(VERIF, ".deps")
    e["PYTHONPATH"] = os.pathsep.join([REPO, VERIF, deps])
    e["PYTHONHASHSEED"] = "0"
    e["PYTHONDONTWRITEBYTECODE"] = "1"
    e["VMON_REPO"] = REPO
    e[GUARD] = "1"
    if extra:
        e.update(extra)
    return e


class LogProbe(logging.Handler):
    """Collects (logger name, message) per thread; attached to the 'chartparse' logger tree."""

    def __init__(self) -> None:
        super().__init__(level=logging.DEBUG)
        self._tls = threading.local()
        self.total = 0

    def _buf(self) -> list:
        b = getattr(self._tls, "buf", None)
        if b is None:
            b = self._tls.buf = []
        return b

    def emit(self, record: logging.LogRecord) -> None:  # called in the emitting thread
        try:
            msg = record.getMessage()
        except Exception as e:  # a logging call that cannot format is itself interesting
            msg = f"<unformattable log record: {type(e).__name__}>"
        self._buf().append((record.name, record.levelname, msg))
        self.total += 1
        self._tls.n = getattr(self._tls, "n", 0) + 1
        if record.levelno >= logging.WARNING and (record.name == "chartparse" or record.name.startswith("chartparse.")):
            self._tls.nw = getattr(self._tls, "nw", 0) + 1

    def total_for_thread(self) -> int:
        return getattr(self._tls, "n", 0)

    def track_warnings_for_thread(self) -> int:
        """records of level WARNING or above on any logger of the chartparse tree emitted by this thread so far (which
        module's logger carries a report is the implementation's choice)"""
        return getattr(self._tls, "nw", 0)

    def drain(self) -> list:
        b = self._buf()
        out = list(b)
        b.clear()
        return out


LOG = LogProbe()
_imported = False


def import_chartparse():
    """Imports chartparse from REPO (chart first: the one order every tree supports)."""
    global _imported
    if REPO not in sys.path:
        sys.path.insert(0, REPO)
    first = os.environ.get("VMON_FIRST_IMPORT")
    if first and not _imported:
        # C17's baseline interpreters differ in which chartparse module they import first ("a fresh interpreter" is any fresh
        # interpreter); whether that order is importable at all is C20's question, so a failure here falls back to chart first
        try:
            import importlib

            importlib.import_module("chartparse." + first)
        except Exception:  # noqa
            for k in [k for k in sys.modules if k == "chartparse" or k.startswith("chartparse.")]:
                del sys.modules[k]
    import chartparse.chart  # noqa: F401  (first, see DESIGN §2)
    import chartparse

    f = os.path.abspath(chartparse.chart.__file__)
    if not f.startswith(REPO + os.sep):
        raise RuntimeError(f"chartparse imported from {f}, not from {REPO}")
    if not _imported:
        root = logging.getLogger()
        for h in list(root.handlers):
            root.removeHandler(h)
        lg = logging.getLogger("chartparse")
        lg.propagate = False
        # which records the library is ASKED for is the application's choice and a workload dimension: half of the shards run with
        # the package's loggers enabled for DEBUG, half at the level an application gets by default (WARNING); the monitors only
        # ever judge records of level WARNING and above
        lg.setLevel(getattr(logging, os.environ.get("VMON_LOGLEVEL", "DEBUG"), logging.DEBUG))
        lg.addHandler(LOG)
        _imported = True
    return chartparse
