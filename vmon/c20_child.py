"""Runs inside a FRESH interpreter (one per import order). Uses only the standard library.

argv[1] = repo root, argv[2] = JSON {"steps": [[form, module, name|null], ...], "modules": [...]}
Prints one JSON line: {"failed": null | {...}, "exec_order": [...], "snapshot": {...}}
"""
import importlib
import json
import sys


def fingerprint(v, depth=0):
    """what a public name is bound to, for values that have a stable textual identity: plain data, loggers, classes and
    functions (by qualified name), and containers of those — never a memory address"""
    import logging
    import types

    if isinstance(v, logging.Logger):
        return f"Logger:{v.name}:disabled={v.disabled}:level={v.level}:propagate={v.propagate}:handlers={len(v.handlers)}"
    if isinstance(v, (str, int, float, bool, bytes, type(None))):
        return repr(v)[:200]
    if isinstance(v, type) and depth == 0 and str(getattr(v, "__module__", "")).startswith("chartparse"):
        # a class of the package: its own plain-data class attributes belong to "the same object" (a class whose constants depend on
        # which module was imported first is not the same class)
        own = []
        for a, x in sorted(vars(v).items()):
            if a.startswith("__") or isinstance(x, (types.FunctionType, classmethod, staticmethod, property, type)):
                continue
            fp = fingerprint(x, 1)
            if fp is not None:
                own.append([a, fp])
        return [f"{v.__module__}.{v.__qualname__}", own]
    if isinstance(v, (type, types.FunctionType, types.BuiltinFunctionType)):
        return f"{getattr(v, '__module__', '?')}.{getattr(v, '__qualname__', '?')}"
    if isinstance(v, types.ModuleType):
        return "module:" + v.__name__
    if depth < 2 and isinstance(v, (tuple, list)):
        return [fingerprint(x, depth + 1) for x in v[:50]]
    if depth < 2 and isinstance(v, (set, frozenset)):
        return sorted(str(fingerprint(x, depth + 1)) for x in list(v)[:50])
    if depth < 2 and isinstance(v, dict):
        return sorted((str(fingerprint(k, depth + 1)), str(fingerprint(x, depth + 1))) for k, x in list(v.items())[:50])
    return None


def main() -> None:
    repo = sys.argv[1]
    job = json.loads(sys.argv[2])
    sys.path.insert(0, repo)
    exec_order = []

    def hook(event, args):
        if event == "import":
            name = args[0]
            if (name == "chartparse" or name.startswith("chartparse.")) and name not in exec_order:
                exec_order.append(name)

    sys.addaudithook(hook)
    if "logging-debug" in (job.get("ambient") or []):
        import logging

        logging.basicConfig(level=logging.DEBUG, stream=open("/dev/null", "w"))
    failed = None
    for i, (form, mod, name) in enumerate(job["steps"]):
        full = f"chartparse.{mod}"
        try:
            if form == "import":
                exec(f"import {full}", {})
            elif form == "importlib":
                importlib.import_module(full)
            elif form == "from_pkg":
                exec(f"from chartparse import {mod}", {})
            elif form == "from_mod":
                exec(f"from {full} import {name}", {})
            else:
                raise RuntimeError(f"unknown form {form}")
            # the statement succeeded — did it bind the package's module / the module's own object?
            real = sys.modules.get(full)
            if form == "from_pkg":
                ns = {}
                exec(f"from chartparse import {mod}", ns)
                if ns[mod] is not real:
                    raise ImportError(f"'from chartparse import {mod}' bound {ns[mod]!r}, not the module chartparse.{mod}")
            if form in ("import", "importlib") and getattr(sys.modules.get("chartparse"), mod, None) is not real:
                raise ImportError(f"after importing it, the attribute chartparse.{mod} is {getattr(sys.modules.get('chartparse'), mod, None)!r}, "
                                  f"not the module chartparse.{mod}")
            if form == "from_mod":
                ns = {}
                exec(f"from {full} import {name}", ns)
                if ns[name] is not getattr(real, name, None):
                    raise ImportError(f"'from {full} import {name}' bound another object than {full}.{name}")
        except BaseException as e:  # noqa
            failed = {"step": i, "form": form, "module": mod, "name": name,
                      "exc": type(e).__name__, "msg": str(e)[:300]}
            break
    snapshot = None
    if failed is None:
        try:
            mods = {}
            for m in sorted(job["modules"]):
                mods[m] = importlib.import_module(f"chartparse.{m}")
            owners = {}
            for m, mo in mods.items():
                for n, v in vars(mo).items():
                    if n.startswith("_"):
                        continue
                    owners.setdefault(id(v), []).append((m, n))
            snapshot = {}
            for m, mo in mods.items():
                d = {}
                for n, v in vars(mo).items():
                    if n.startswith("_"):
                        continue
                    first = min(owners[id(v)])
                    d[n] = [first[0], first[1], type(v).__name__, str(getattr(v, "__module__", None)),
                            str(getattr(v, "__qualname__", None)), fingerprint(v)]
                snapshot[m] = d
        except BaseException as e:  # noqa
            failed = {"step": len(job["steps"]), "form": "completion", "module": "?", "name": None,
                      "exc": type(e).__name__, "msg": str(e)[:300]}
    print(json.dumps({"failed": failed, "exec_order": exec_order, "snapshot": snapshot}))


main()
