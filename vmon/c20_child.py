"""Runs inside a FRESH interpreter (one per import order). Uses only the standard library.

argv[1] = repo root, argv[2] = JSON {"steps": [[form, module, name|null], ...], "modules": [...]}
Prints one JSON line: {"failed": null | {...}, "exec_order": [...], "snapshot": {...}}
"""
import importlib
import json
import sys


def fingerprint(v, depth=0):
    """what a public name is bound to, for values that have a stable textual identity: plain data, loggers, classes and
    functions (by qualified name), and containers of those — never a memory address"""
    import logging
    import types

    if isinstance(v, logging.Logger):
        return f"Logger:{v.name}:disabled={v.disabled}:level={v.level}:propagate={v.propagate}:handlers={len(v.handlers)}"
    if isinstance(v, (str, int, float, bool, bytes, type(None))):
        return repr(v)[:200]
    if isinstance(v, type) and depth == 0 and str(getattr(v, "__module__", "")).startswith("chartparse"):
        # a class of the package: its own plain-data class attributes belong to "the same object" (a class whose constants depend on
        # which module was imported first is not the same class)
        own = []
        for a, x in sorted(vars(v).items()):
            if a.startswith("__") or isinstance(x, (types.FunctionType, classmethod, staticmethod, property, type)):
                continue
            fp = fingerprint(x, 1)
            if fp is not None:
                own.append([a, fp])
        return [f"{v.__module__}.{v.__qualname__}", own]
    if isinstance(v, (type, types.FunctionType, types.BuiltinFunctionType)):
        return f"{getattr(v, '__module__', '?')}.{getattr(v, '__qualname__', '?')}"
    if isinstance(v, types.ModuleType):
        return "module:" + v.__name__
    if depth < 2 and isinstance(v, (tuple, list)):
        return [fingerprint(x, depth + 1) for x in v[:50]]
    if depth < 2 and isinstance(v, (set, frozenset)):
        return sorted(str(fingerprint(x, depth + 1)) for x in list(v)[:50])
    if depth < 2 and isinstance(v, dict):
        return sorted((str(fingerprint(k, depth + 1)), str(fingerprint(x, depth + 1))) for k, x in list(v.items())[:50])
    return None


def smoke() -> dict:
    """Whatever is loaded is usable: each documented per-section entry point of the modules loaded SO FAR (by the steps, directly or
    transitively) is called once on three lines. An interpreter that imported only part of the package must get the same answers
    as one that imported everything — a module that imports fine but needs a sibling somebody else happened to load is not
    "importable first"."""
    import io

    out = {}
    m = sys.modules

    def run(name, fn):
        try:
            out[name] = repr(fn())[:400]
        except BaseException as e:  # noqa
            out[name] = f"raised {type(e).__name__}: {e}"[:300]

    S, G, I, M, C, T = (m.get("chartparse." + k) for k in ("sync", "globalevents", "instrument", "metadata", "chart", "tick"))
    st = None
    if S is not None:
        try:
            st = S.SyncTrack.from_chart_lines(192, ["  0 = TS 4", "  0 = B 120000", "  192 = B 90000"])
        except BaseException:  # noqa
            st = None
        run("sync", lambda: [(e.tick, str(e.timestamp), e.bpm) for e in S.SyncTrack.from_chart_lines(192, ["  0 = TS 4", "  0 = B 120000", "  192 = B 90000"]).bpm_events])
    if G is not None and st is not None:
        run("globalevents", lambda: [(e.tick, str(e.timestamp), e.value) for e in
                                     G.GlobalEventsTrack.from_chart_lines(['  0 = E "section a"', '  192 = E "lyric b"', '  384 = E "c"'], st.bpm_events).section_events])
    if I is not None and st is not None:
        run("instrument", lambda: [(n.tick, str(n.timestamp), n.note.name, n.hopo_state.name) for n in
                                   I.InstrumentTrack.from_chart_lines(I.Instrument.GUITAR, I.Difficulty.EXPERT,
                                                                      ["  0 = N 0 0", "  192 = S 2 10", "  192 = N 1 5", "  192 = E solo"], st.bpm_events).note_events])
    if M is not None:
        run("metadata", lambda: (lambda md: (md.resolution, md.name, md.offset))(M.Metadata.from_chart_lines(["  Resolution = 192", '  Name = "x"'])))
    if T is not None:
        run("tick", lambda: T.seconds_from_ticks_at_bpm(96, 120.0, 192))
    if C is not None:
        text = ('[Song]\n{\n  Resolution = 192\n}\n[SyncTrack]\n{\n  0 = TS 4\n  0 = B 120000\n}\n[Events]\n{\n  0 = E "section a"\n}\n'
                '[ExpertSingle]\n{\n  0 = N 0 0\n  96 = N 1 0\n}\n')
        run("chart", lambda: (lambda c: (len(c.sync_track.bpm_events), [(i.name, [d.name for d in v]) for i, v in c.instrument_tracks.items()]))(
            C.Chart.from_file(io.StringIO(text))))
    return out


def star(full: str) -> None:
    """`from <module> import *`: succeeds, and binds the module's own objects"""
    ns = {}
    exec(f"from {full} import *", ns)
    real = sys.modules[full]
    for n, v in ns.items():
        if n != "__builtins__" and getattr(real, n, None) is not v:
            raise ImportError(f"'from {full} import *' bound {n} to another object than {full}.{n}")


def main() -> None:
    repo = sys.argv[1]
    job = json.loads(sys.argv[2])
    sys.path.insert(0, repo)
    exec_order = []

    def hook(event, args):
        if event == "import":
            name = args[0]
            if (name == "chartparse" or name.startswith("chartparse.")) and name not in exec_order:
                exec_order.append(name)

    sys.addaudithook(hook)
    if "logging-debug" in (job.get("ambient") or []):
        import logging

        logging.basicConfig(level=logging.DEBUG, stream=open("/dev/null", "w"))
    failed = None
    for i, (form, mod, name) in enumerate(job["steps"]):
        full = f"chartparse.{mod}"
        try:
            if form == "import":
                exec(f"import {full}", {})
            elif form == "importlib":
                importlib.import_module(full)
            elif form == "from_pkg":
                exec(f"from chartparse import {mod}", {})
            elif form == "from_mod":
                exec(f"from {full} import {name}", {})
            elif form == "star":
                star(full)
            else:
                raise RuntimeError(f"unknown form {form}")
            # the statement succeeded — did it bind the package's module / the module's own object?
            real = sys.modules.get(full)
            if form == "from_pkg":
                ns = {}
                exec(f"from chartparse import {mod}", ns)
                if ns[mod] is not real:
                    raise ImportError(f"'from chartparse import {mod}' bound {ns[mod]!r}, not the module chartparse.{mod}")
            if form in ("import", "importlib") and getattr(sys.modules.get("chartparse"), mod, None) is not real:
                raise ImportError(f"after importing it, the attribute chartparse.{mod} is {getattr(sys.modules.get('chartparse'), mod, None)!r}, "
                                  f"not the module chartparse.{mod}")
            if form == "from_mod":
                ns = {}
                exec(f"from {full} import {name}", ns)
                if ns[name] is not getattr(real, name, None):
                    raise ImportError(f"'from {full} import {name}' bound another object than {full}.{name}")
        except BaseException as e:  # noqa
            failed = {"step": i, "form": form, "module": mod, "name": name,
                      "exc": type(e).__name__, "msg": str(e)[:300]}
            break
        if job.get("use_between") and i + 1 < len(job["steps"]):
            # a program that USES what it has imported before it imports more (import sync; build a tempo map; import chart; ...)
            try:
                smoke()
            except BaseException:  # noqa
                pass
    snapshot = None
    used = None
    used_final = None
    if failed is None:
        try:
            used = smoke()
        except BaseException as e:  # noqa
            used = {"smoke": f"raised {type(e).__name__}: {e}"[:300]}
        try:
            mods = {}
            for m in sorted(job["modules"]):
                mods[m] = importlib.import_module(f"chartparse.{m}")
            owners = {}
            for m, mo in mods.items():
                for n, v in vars(mo).items():
                    if n.startswith("_"):
                        continue
                    owners.setdefault(id(v), []).append((m, n))
            snapshot = {}
            for m, mo in mods.items():
                d = {}
                for n, v in vars(mo).items():
                    if n.startswith("_"):
                        continue
                    first = min(owners[id(v)])
                    d[n] = [first[0], first[1], type(v).__name__, str(getattr(v, "__module__", None)),
                            str(getattr(v, "__qualname__", None)), fingerprint(v)]
                snapshot[m] = d
        except BaseException as e:  # noqa
            failed = {"step": len(job["steps"]), "form": "completion", "module": "?", "name": None,
                      "exc": type(e).__name__, "msg": str(e)[:300]}
        if failed is None:
            # with everything loaded - in whatever order, with whatever use in between - the package is used once more ...
            try:
                used_final = smoke()
            except BaseException as e:  # noqa
                used_final = {"smoke": f"raised {type(e).__name__}: {e}"[:300]}
            # ... and every module's public names can be imported wholesale
            for m in sorted(job["modules"]):
                try:
                    star(f"chartparse.{m}")
                except BaseException as e:  # noqa
                    failed = {"step": len(job["steps"]), "form": "star", "module": m, "name": "*", "exc": type(e).__name__, "msg": str(e)[:300]}
                    break
    print(json.dumps({"failed": failed, "exec_order": exec_order, "snapshot": snapshot, "used": used, "used_final": used_final}))


main()
