#!/venv/bin/python
"""Regenerates MANIFEST.json from the property modules (run from /verif)."""
import importlib, json, os, sys
sys.path.insert(0, os.path.dirname(os.path.abspath(__file__)))
sys.path.insert(0, os.path.join(os.path.dirname(os.path.abspath(__file__)), ".deps"))

TEXT = {
 "C01": ("held on K executions: every reported timestamp (8 event kinds, sustain ends, direct queries) of thousands of generated charts compared with an exact rational tempo map, incl. directed ticks whose exact time sits a hair from x.5 us; exploration is the right level because the claim quantifies over unbounded tempo maps and a finite run can only sample them", "reference-model monitor (exact Fraction tempo map) + icontract postconditions on timestamp_at_tick"),
 "C02": ("exhaustive over the 32 lane combinations x position x flags x gap x S/E interleaving contexts, plus random tracks; decided by comparing the parser's note events with generator ground truth", "reference-model monitor over enumerated line contexts"),
 "C03": ("exhaustive over the 1024 lane/length patterns x 4 flag combinations on multi-tempo maps, plus random tracks; sustain shape, longest, end tick, end time and last-note-end compared with ground truth", "reference-model monitor + per-note invariants"),
 "C04": ("complete decision table per resolution (all 1024 ordered pairs via a de Bruijn cycle x 7 distances x 4 flag combinations; quick 9 resolutions, thorough 1..64 and ~40 more) compared with the natural-HOPO rule", "reference-model monitor over an exhaustive decision table"),
 "C05": ("small-scope exhaustive (<=3 phrases, starts 0..6, lengths 0..4, dense and sparse note sets; complete on thorough, sampled on quick) + random nested/overlapping/zero-length lists against a linear-scan oracle", "reference-model monitor, small-scope enumeration"),
 "C06": ("each of the 40 headers alone and all together, random permutations, LF/CRLF, BOM by path, unknown sections; decided by a boundary probe on the four section parsers (lines received == body lines), cross-rendering observation equality and the log records", "section-boundary probe + differential renderings + log monitor"),
 "C07": ("hundreds of thousands of canonical and single-edit near-miss lines judged by a hand-written three-valued recogniser against the three public recognisers, plus the same lines inside parsed sections; a language claim can only be sampled by this family", "three-valued recogniser oracle on public from_chart_line + in-section route"),
 "C08": ("every n in 1..10^7 (thorough; 1..20000 + all split-sum-differs values <= 200000 + samples to 10^12 on quick) through the real file parser, TS for all exponents 0..16 and anchors, 1-12 digit ticks; integer oracle", "exhaustive enumeration through the real parser with an integer oracle"),
 "C09": ("tens of thousands of event texts over a hostile alphabet + directed list, classified by prefix with verbatim remainder and compared with the three public lists in file order", "reference-model monitor"),
 "C10": ("hundreds of thousands of [Song] sections (all subsets of 7-field windows, random subsets, hostile values incl. other fields' complete lines) compared field by field with ground truth and documented defaults; cross-field probes; missing Resolution", "reference-model monitor + cross-field metamorphic probes"),
 "C11": ("every (map, tick, hint) of the small scope (1..8 tempo events) and random maps up to 300 events judged against the governing index; parses with each event kind's lines disordered: ValueError or stored == un-hinted; always-on postcondition on every timestamp_at_tick call the parser makes", "contract on timestamp_at_tick + trace checker over disordered parses"),
 "C12": ("ascending dense and sparse sweeps of the public query over extreme maps (alternating 0.001/10^6 BPM, 1-tick segments, sub-us ticks, maps exactly at the strictness bound) and the merged events of all tracks", "monotonic-trace monitor"),
 "C13": ("restricted vs unrestricted parses for None / empty / singleton / subset / superset / absent / duplicate selections as lists and tuples on charts with 0-40 tracks; one section's body replaced by valid, empty, garbage and invalid content", "differential monitor (observation equality)"),
 "C14": ("dispatch probe + log probe: lines = data + warnings per dispatch, data per kind == lines that kind claims, one warning per unclaimed line; insert/move/delete unparsable lines leaves the observation unchanged; pairwise disjointness probed on near-miss strings", "conservation / exactly-once trace checker + metamorphic insertion"),
 "C15": ("every corruption operator at every position of every generated chart (drop/shift tick-0 tempo or signature, duplicate/swap tempo ticks, zero tempo, resolution 0), direct constructor faults, negative-tick queries; oracle on exception type and on what a zero-tempo chart may contain", "fault enumeration with exception-type oracle + always-on postcondition"),
 "C16": ("icontract postcondition on the real notes_per_second computing count/length exactly from public observations, driven with every argument form, bounds on/around note times, zero/negative intervals, absent and note-less tracks; tick and time forms must agree", "contract on the real method + driver"),
 "C17": ("each text's fresh-interpreter outcome vs the same text at arbitrary points of long single-process histories (after failures, repeats, other resolutions) and under 2-16 threads with LINE-event yield injection inside chartparse (millions of observed switches at hundreds of distinct statements)", "differential monitor: fresh process vs history vs threads with yield injection"),
 "C18": ("tens of thousands (millions on thorough) of mutated and fragment-assembled texts; only ValueError / RegexNotMatchError / MissingRequiredField may escape; every returned chart and event rendered with str and repr", "mutation/fragment fuzz with exception-class and total-rendering oracles"),
 "C19": ("snapshot of the full public observation (incl. instrument-map key structure) and twin equality before/after every operation of seeded read-only sequences; setattr/delattr probes on every event and track class; icontract snapshot/ensure on Chart.__getitem__ and notes_per_second", "snapshot-before/after monitor + assignment probes"),
 "C20": ("all 12 first-imports and all 132 ordered pairs exhaustively, plus sampled longer orders in four import forms, each in its own fresh interpreter with an audit hook; exit status and structural public-name snapshot compared with the reference order", "fresh interpreter per import order + audit-hook trace"),
}
checks = []
for i in range(1, 21):
    pid = f"C{i:02d}"
    m = importlib.import_module(f"vmon.props.{pid.lower()}")
    text, tech = TEXT[pid]
    checks.append({
        "property_id": pid,
        "quick_cmd": f"./check {pid} quick",
        "thorough_cmd": f"./check {pid} thorough",
        "evidence_file": f"/verif/evidence/{pid}.json",
        "replay_cmd_template": f"./check {pid} --replay {{path}}",
        "engine": "vmon",
        "level_claimed": {"category": m.LEVEL, "text": text, "design_ref": f"DESIGN.md §4 {pid}"},
        "level_note": "; ".join(m.ASSUMPTIONS) + "; interpreter configuration is a workload dimension: one shard of every kind is repeated under python -O, -OO, an ASCII locale, warnings-as-errors around Chart.from_file and a lowered caller decimal context, shards alternate between package loggers at DEBUG and at WARNING, every fourth process starts with reports silenced, every third process has a past (330 charts read and ~850 reports made before the first judged chart) (C20 instead starts its fresh interpreters with -O/-OO/-I/-S, with logging pre-configured for DEBUG and with the package in a zip archive); use is a dimension too: repeated use of one object (hundreds to thousands of questions), one chart shared by four threads for read-only use with switches provoked between chartparse statements, read-only uses aborted by a timer signal, attributes enumerated with inspect.getmembers, parts read after the Chart was dropped" + "; trusted base: CPython 3.12, the harness (vmon/*) and its independent model/oracles; held on the executions observed, not proved",
        "technique": tech,
    })
man = {
 "version": 1,
 "setup_cmd": "./setup.sh",
 "hooks": {
  "guard": "CHARTPARSE_VERIF",
  "enable": "no source hooks exist in /repo: every monitor wraps public API from outside (class/module attributes patched in the check's own process); checks import chartparse from /repo's working tree via PYTHONPATH and set CHARTPARSE_VERIF=1 for their own children only",
  "baseline_off_cmd": "cd /repo && /venv/bin/python -m pytest -ra -q -p no:cacheprovider --timeout=900 --continue-on-collection-errors",
  "source_commits": [],
  "add_only": True
 },
 "engines": [{"name": "vmon", "path": "/verif/vmon", "serves_properties": [c["property_id"] for c in checks],
              "kind_free_text": "runtime monitoring: reference-model monitors, icontract contracts on real functions, boundary probes, trace checkers, differential monitors; sharded over 16 subprocesses"}],
 "checks": checks,
 "notes": "Three genuine defects were found and repaired in /repo as separate 'fix:' commits (C20 87ac0b4, C08 56d083c, C19 14c6288); see known_findings.txt. Exit 2 + INCONCLUSIVE line = the deciding monitor was not reached (never folded into held/violated). selftest/run.py applies property-breaking patches to scratch copies and expects exit 1.",
 "not_applicable": []
}
json.dump(man, open("MANIFEST.json", "w"), indent=1)
print("checks:", len(checks))
