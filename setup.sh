#!/bin/bash
# Offline setup: put icontract + deal beside the repository's interpreter (git-ignored .deps).
# Never fails the caller: vmon.contracts falls back to an internal decorator when icontract is absent.
cd "$(dirname "$0")"
if [ ! -d .deps/icontract ]; then
  PIP_NO_INDEX=1 /venv/bin/pip install --quiet --no-index --find-links /opt/veriftools/wheels \
      --target .deps icontract deal >/dev/null 2>.deps.log || echo "setup: icontract/deal not installed (fallback decorators will be used)" >&2
  rm -f .deps.log
fi
exit 0
