#!/venv/bin/python
"""Ingest an independently written breaking change from a sub-agent's worktree.

  tools_seed.py verify <ID> <n>      confirm in /tmp/wt/<ID>: patch applies, suite unchanged (251 passed / 1 failed),
                                     demo fails with the change and passes without it
  tools_seed.py keep <ID> <n> "<needs>"   verify, then copy to /verif/seeded/<ID>-<n>/ (patch.diff, demo.py, notes.txt, meta.json)
"""
import json, os, shutil, subprocess, sys

PY = "/venv/bin/python"
ROOT = os.environ.get("SEED_ROOT", "/tmp/wt")  # where the sub-agents' scratch worktrees are
TAG = os.environ.get("SEED_TAG", "")  # e.g. "r2-" for the second round


def sh(cmd, cwd, timeout=900):
    p = subprocess.run(cmd, cwd=cwd, capture_output=True, text=True, timeout=timeout)
    return p.returncode, (p.stdout + p.stderr)


def verify(ID, n):
    wt = f"{ROOT}/{ID}"
    out = f"{wt}/out/{n}"
    res = {"patch_applies": False, "suite": None, "demo_with_change": None, "demo_without_change": None}
    sh(["git", "checkout", "--", "."], wt)
    rc, o = sh(["git", "apply", "--check", f"out/{n}/patch.diff"], wt)
    if rc:
        res["error"] = o[-400:]
        return res
    sh(["git", "apply", f"out/{n}/patch.diff"], wt)
    res["patch_applies"] = True
    try:
        rc, o = sh([PY, "-m", "pytest", "-q", "-p", "no:cacheprovider", "-x", "--deselect",
                    "tests/test_instrument.py::TestNoteEvent::TestEndTick::test_wrapper"], wt)
        res["suite"] = o.strip().splitlines()[-1] if o.strip() else f"rc={rc}"
        res["suite_ok"] = rc == 0 and "251 passed" in res["suite"]
        rc, o = sh([PY, f"out/{n}/demo.py"], wt, 300)
        res["demo_with_change"] = rc
        res["demo_tail"] = o.strip()[-500:]
    finally:
        sh(["git", "checkout", "--", "."], wt)
    rc, o = sh([PY, f"out/{n}/demo.py"], wt, 300)
    res["demo_without_change"] = rc
    res["ok"] = bool(res.get("suite_ok") and res["demo_with_change"] != 0 and res["demo_without_change"] == 0)
    return res


def main():
    cmd, ID, n = sys.argv[1], sys.argv[2], sys.argv[3]
    r = verify(ID, n)
    print(json.dumps(r, indent=1))
    if cmd == "keep":
        if not r.get("ok"):
            print("NOT KEPT: verification failed")
            return 1
        dst = f"/verif/seeded/{ID}-{TAG}{n}"
        os.makedirs(dst, exist_ok=True)
        for f in ("patch.diff", "demo.py", "notes.txt"):
            if os.path.exists(f"{ROOT}/{ID}/out/{n}/{f}"):
                shutil.copy(f"{ROOT}/{ID}/out/{n}/{f}", dst)
        meta = {"property": ID, "needs": sys.argv[4] if len(sys.argv) > 4 else "",
                "origin": "fresh sub-agent given only the property text and a scratch worktree",
                "confirmed": {"suite_with_change": r["suite"], "demo_exit_with_change": r["demo_with_change"],
                              "demo_exit_without_change": r["demo_without_change"],
                              "how": f"git apply in a scratch worktree of /repo HEAD; pytest -q (251 passed + the pre-existing test_wrapper failure deselected); "
                                     f"python demo.py with and without the change"},
                "checks_run": {}}
        json.dump(meta, open(f"{dst}/meta.json", "w"), indent=1)
        print("kept in", dst)
    return 0 if r.get("ok") else 1


if __name__ == "__main__":
    sys.exit(main())
