#!/bin/bash
# ./run_all.sh quick|thorough [seed]   — runs every registered check; prints one line per check
cd "$(dirname "$0")"
tier=${1:-quick}; export VERIF_SEED=${2:-0}
rc=0
for i in $(seq -w 1 20); do
  out=$(./check C$i $tier 2>&1); r=$?
  echo "$out" | head -3 | cut -c1-300
  [ $r -ne 0 ] && rc=1 && echo "  ^^^ exit $r"
done
exit $rc
